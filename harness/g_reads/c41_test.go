package g_reads

// C41 — Flux window-aggregate tables have the right windows and values.
//
// Subject: storageflux.NewReader(store).ReadWindowAggregate over a REAL store:
// storage.Engine (tsdb.Store, real shards: WAL + cache + TSM + tsi1) behind
// v1/services/storage.Store, meta client on an in-memory KV. Nothing is mocked.
// Oracle: C20's window arithmetic + a table model; the raw rows are what the same reader's
// ReadFilter returns for the same bounds/predicate (the statement's definition).
// Two streams: nanosecond windows (250ms … 90m) over datasets of 1–3 hours in shard groups of 1h,
// and calendar-month windows (1mo … 12mo, offsets in months and/or nanoseconds) over datasets of
// 5–30 months in shard groups of 7–90 days; the month bounds come from the check's own calendar
// arithmetic (c20W in c20_test.go), never from flux/interval.

import (
	"context"
	"errors"
	"fmt"
	"sort"
	"strings"
	"testing"
	"time"

	arrowmem "github.com/apache/arrow-go/v18/arrow/memory"
	"github.com/influxdata/flux"
	"github.com/influxdata/flux/execute"
	"github.com/influxdata/flux/memory"
	"github.com/influxdata/flux/plan"
	"github.com/influxdata/flux/values"
	"github.com/influxdata/influxdb/v2/inmem"
	"github.com/influxdata/influxdb/v2/kit/platform"
	"github.com/influxdata/influxdb/v2/models"
	"github.com/influxdata/influxdb/v2/query"
	"github.com/influxdata/influxdb/v2/storage"
	storageflux "github.com/influxdata/influxdb/v2/storage/flux"
	"github.com/influxdata/influxdb/v2/storage/reads"
	"github.com/influxdata/influxdb/v2/storage/reads/datatypes"
	"github.com/influxdata/influxdb/v2/tsdb"
	"github.com/influxdata/influxdb/v2/tsdb/engine/tsm1"
	"github.com/influxdata/influxdb/v2/v1/services/meta"
	storagev1 "github.com/influxdata/influxdb/v2/v1/services/storage"
	"google.golang.org/protobuf/types/known/anypb"

	"verifharness/vkit"
	"verifharness/vkit/sk"
)

// ---- the real store stack ----------------------------------------------------------------------

type c41Env struct {
	eng    *storage.Engine
	mc     *meta.Client
	store  *storagev1.Store
	reader query.StorageReader
	org    platform.ID
	bucket platform.ID
}

func c41OpenEnv(dir string) (*c41Env, error) { return c41OpenEnvSGD(dir, time.Hour) }

// c41OpenEnvSGD opens the store with the given shard group duration (1h for the nanosecond-window
// datasets spanning hours, days to months for the calendar-window datasets spanning months).
func c41OpenEnvSGD(dir string, sgd time.Duration) (*c41Env, error) {
	ctx := context.Background()
	kv := inmem.NewKVStore()
	if err := kv.CreateBucket(ctx, meta.BucketName); err != nil {
		return nil, err
	}
	mc := meta.NewClient(meta.NewConfig(), kv)
	if err := mc.Open(); err != nil {
		return nil, err
	}
	e := &c41Env{mc: mc, org: platform.ID(0x0101), bucket: platform.ID(0x0202)}
	rp := &meta.RetentionPolicySpec{Name: meta.DefaultRetentionPolicyName, ShardGroupDuration: sgd}
	if _, err := mc.CreateDatabaseWithRetentionPolicy(e.bucket.String(), rp); err != nil {
		mc.Close()
		return nil, err
	}
	cfg := storage.NewConfig()
	cfg.RetentionService.Enabled = false
	cfg.PrecreatorConfig.Enabled = false
	e.eng = storage.NewEngine(dir, cfg, storage.WithMetaClient(mc), storage.WithMetricsDisabled(true))
	if ts, ok := e.eng.TSDBStore().(*tsdb.Store); ok {
		ts.EngineOptions.CompactionDisabled = true // the harness owns the file layout; logical content is unaffected
	}
	if err := e.eng.Open(ctx); err != nil {
		mc.Close()
		return nil, err
	}
	e.store = storagev1.NewStore(e.eng.TSDBStore(), e.eng.MetaClient())
	e.reader = storageflux.NewReader(e.store)
	return e, nil
}

func (e *c41Env) Close() {
	e.eng.Close()
	e.mc.Close()
}

func (e *c41Env) write(pts []models.Point) error {
	for len(pts) > 0 {
		n := len(pts)
		if n > 4000 {
			n = 4000
		}
		if err := e.eng.WritePoints(context.Background(), e.org, e.bucket, pts[:n]); err != nil {
			return err
		}
		pts = pts[n:]
	}
	return nil
}

// snapshotSome flushes the cache of a pseudo-random subset of the shards into TSM files.
func (e *c41Env) snapshotSome(rg *vkit.Rand, num, den int) (int, error) {
	groups, err := e.mc.ShardGroupsByTimeRange(e.bucket.String(), meta.DefaultRetentionPolicyName, time.Unix(0, models.MinNanoTime), time.Unix(0, models.MaxNanoTime))
	if err != nil {
		return 0, err
	}
	n := 0
	for _, g := range groups {
		for _, si := range g.Shards {
			if !rg.Chance(num, den) {
				continue
			}
			for _, sh := range e.eng.TSDBStore().Shards([]uint64{si.ID}) {
				eng, err := sh.Engine()
				if err != nil {
					return n, err
				}
				if err := eng.(*tsm1.Engine).WriteSnapshot(); err != nil {
					return n, err
				}
				n++
			}
		}
	}
	return n, nil
}

func (e *c41Env) shardCount() int {
	groups, err := e.mc.ShardGroupsByTimeRange(e.bucket.String(), meta.DefaultRetentionPolicyName, time.Unix(0, models.MinNanoTime), time.Unix(0, models.MaxNanoTime))
	if err != nil {
		return -1
	}
	n := 0
	for _, g := range groups {
		n += len(g.Shards)
	}
	return n
}

func (e *c41Env) source() *anypb.Any {
	a, err := anypb.New(e.store.GetSource(uint64(e.org), uint64(e.bucket)))
	if err != nil {
		panic(err)
	}
	return a
}

func c41TagsKey(tags models.Tags) string {
	var parts []string
	for _, t := range tags {
		parts = append(parts, string(t.Key)+"="+string(t.Value))
	}
	sort.Strings(parts)
	return strings.Join(parts, ",")
}

type c41Raw struct {
	typ byte
	pts []sk.Pt
}

// rawSeries: what Store.ReadFilter returns per series for [lo,hi) (C20's store stream).
func (e *c41Env) rawSeries(lo, hi int64, pred *datatypes.Predicate) (map[string]*c41Raw, error) {
	rs, err := e.store.ReadFilter(context.Background(), &datatypes.ReadFilterRequest{ReadSource: e.source(), Range: &datatypes.TimestampRange{Start: lo, End: hi}, Predicate: pred})
	if err != nil || rs == nil {
		return map[string]*c41Raw{}, err
	}
	defer rs.Close()
	out := map[string]*c41Raw{}
	for rs.Next() {
		cur := rs.Cursor()
		if cur == nil {
			continue
		}
		pts, err := sk.DrainCursor(cur)
		cur.Close()
		if err != nil {
			return nil, err
		}
		if len(pts) > 0 {
			out[c41TagsKey(rs.Tags())] = &c41Raw{typ: pts[0].V.K, pts: pts}
		}
	}
	return out, rs.Err()
}

// windowAggregate: Store.WindowAggregate drained per series (C20's store stream).
func (e *c41Env) windowAggregate(req *datatypes.ReadWindowAggregateRequest) (map[string][]sk.Pt, error) {
	req.ReadSource = e.source()
	rs, err := e.store.WindowAggregate(context.Background(), req)
	if err != nil || rs == nil {
		return map[string][]sk.Pt{}, err
	}
	defer rs.Close()
	out := map[string][]sk.Pt{}
	for rs.Next() {
		cur := rs.Cursor()
		if cur == nil {
			continue
		}
		pts, _, err := c20Drain(cur, 1<<22)
		cur.Close()
		if err != nil {
			return out, err
		}
		out[c41TagsKey(rs.Tags())] = pts
	}
	return out, rs.Err()
}

// ---- datasets ----------------------------------------------------------------------------------

type c41Series struct {
	m, field string
	tags     map[string]string
	typ      byte
	style    string
	pts      map[int64]sk.Val
	ts       []int64
}

func (s *c41Series) sorted() []int64 {
	if len(s.ts) != len(s.pts) {
		s.ts = s.ts[:0]
		for t := range s.pts {
			s.ts = append(s.ts, t)
		}
		sort.Slice(s.ts, func(i, j int) bool { return s.ts[i] < s.ts[j] })
	}
	return s.ts
}

type c41Dataset struct {
	no     int
	kind   string        // "" (hours, nanosecond windows) or "months"
	m0, nm int64         // months: first month (months since 1970-01) and number of months
	sgd    time.Duration // months: shard group duration of the store
	shards int
	base   int64 // hour aligned (months: 00:00 of the first day of month m0)
	span   int64
	series []*c41Series
	everys []int64
	nPts   int
	snaps  int
	notes  []string
}

const (
	c41Sec  = int64(time.Second)
	c41Min  = int64(time.Minute)
	c41Hour = int64(time.Hour)
)

func (d *c41Dataset) describe() string {
	var s []string
	for _, x := range d.series {
		s = append(s, fmt.Sprintf("%s/%s:%s:%s:%d", x.m, x.field, c20TypeName(x.typ), x.style, len(x.pts)))
	}
	if d.kind == "months" {
		y, m, _ := c20CivilFromDays(d.base / c20Day)
		return fmt.Sprintf("months#%d first_month=%04d-%02d months=%d shard_group_duration=%dd shards=%d snapshots=%d series=%v", d.no, y, m, d.nm, int64(d.sgd/(24*time.Hour)), d.shards, d.snaps, s)
	}
	return fmt.Sprintf("#%d base=%d span=%dh snapshots=%d series=%v", d.no, d.base, d.span/c41Hour, d.snaps, s)
}

// c41GenMonthDataset: series spanning 5–30 calendar months around leap / non-leap Februaries and
// the epoch; points days or hours apart, whole months without points, points exactly on month
// boundaries (00:00:00 UTC of the first day) and the nanosecond before / after them.
func c41GenMonthDataset(rg *vkit.Rand, no int) *c41Dataset {
	d := &c41Dataset{no: no, kind: "months"}
	ym := func(y, m int64) int64 { return (y-1970)*12 + m - 1 }
	d.m0 = vkit.Pick(rg, []int64{ym(2019, 9), ym(1967, 6), ym(1999, 8), ym(1899, 7), ym(2023, 3), ym(1969, 4), ym(2099, 6), ym(1923, 11), ym(2015, 12)}) + int64(rg.Intn(5))
	d.nm = int64(rg.Range(5, 30))
	d.base = c20MonthStart(d.m0)
	d.span = c20MonthStart(d.m0+d.nm) - d.base
	// shard groups: several per series, never one per point
	switch {
	case d.nm <= 7:
		d.sgd = vkit.Pick(rg, []time.Duration{7, 14, 30}) * 24 * time.Hour
	case d.nm <= 16:
		d.sgd = vkit.Pick(rg, []time.Duration{30, 45}) * 24 * time.Hour
	default:
		d.sgd = vkit.Pick(rg, []time.Duration{60, 90}) * 24 * time.Hour
	}
	types := []byte{'f', 'i', 'u', 's', 'b', 'f', 'i'}
	ns := rg.Range(4, 7)
	hour := c41Hour
	for i := 0; i < ns; i++ {
		typ := types[i]
		kind := "num"
		if typ == 's' || typ == 'b' {
			kind = "txt"
		}
		s := &c41Series{m: fmt.Sprintf("%s%d", map[string]string{"num": "m", "txt": "t"}[kind], i%2), field: "v" + string(typ), tags: map[string]string{"k": kind, "h": fmt.Sprintf("h%d", i)}, typ: typ, pts: map[int64]sk.Val{}}
		vmode := rg.Intn(2)
		add := func(t int64) {
			if t < d.base || t >= d.base+d.span {
				return
			}
			s.pts[t] = c20Value(rg, typ, vmode, len(s.pts))
		}
		// months of the span that stay without points in this series
		dead := map[int64]bool{}
		if rg.Chance(2, 3) {
			for j, nd := 0, rg.Range(1, int(d.nm)/2); j < nd; j++ {
				dead[d.m0+int64(rg.Intn(int(d.nm)))] = true
			}
		}
		addLive := func(t int64) {
			if !dead[c20MonthIdx(t)] {
				add(t)
			}
		}
		switch rg.Intn(5) {
		case 0: // pseudo-random steps of hours to days
			s.style = "steps"
			maxStep := vkit.Pick(rg, []int64{30 * hour, 4 * 24 * hour, 11 * 24 * hour})
			for t := d.base + int64(rg.Uint64()%uint64(maxStep)); t < d.base+d.span; t += 1 + int64(rg.Uint64()%uint64(maxStep)) {
				if rg.Bool() {
					t = t / hour * hour
				}
				addLive(t)
			}
		case 1: // month boundaries and their neighbours, plus a few points in between
			s.style = "boundaries"
			for m := d.m0; m <= d.m0+d.nm; m++ {
				b := c20MonthStart(m)
				if rg.Chance(3, 4) {
					add(b)
				}
				if rg.Chance(3, 4) {
					add(b - 1)
				}
				if rg.Chance(1, 3) {
					add(b + 1)
				}
				if rg.Chance(1, 3) {
					add(b + int64(rg.Uint64()%uint64(28*c20Day)))
				}
			}
		case 2: // sparse: single points in some months
			s.style = "sparse"
			for j, n := 0, rg.Range(3, 40); j < n; j++ {
				addLive(d.base + int64(rg.Uint64()%uint64(d.span)))
			}
		case 3: // clusters of points hours or days apart, long silences
			s.style = "clusters"
			for c, nc := 0, rg.Range(2, 7); c < nc; c++ {
				t0 := d.base + int64(rg.Uint64()%uint64(d.span))
				step := vkit.Pick(rg, []int64{hour, 7 * hour, 24 * hour, 3 * 24 * hour})
				for j, n := 0, rg.Range(3, 60); j < n; j++ {
					add(t0 + int64(j)*step)
				}
			}
		default: // the last and first day of months, densely (a window change every few points)
			s.style = "month_ends"
			for m := d.m0 + 1; m < d.m0+d.nm; m++ {
				if dead[m] {
					continue
				}
				b := c20MonthStart(m)
				for j, n := 0, rg.Range(1, 6); j < n; j++ {
					add(b + (int64(rg.Intn(48))-24)*hour + int64(rg.Intn(2))*int64(rg.Intn(1000)))
				}
				if m == d.m0+2 || rg.Chance(1, 4) { // 28th … 1st: the end of February in leap and other years
					for dd := int64(-3); dd <= 0; dd++ {
						add(b + dd*c20Day)
						add(b + dd*c20Day - 1)
					}
				}
			}
		}
		if len(s.pts) == 0 {
			add(d.base + d.span/2)
		}
		d.nPts += len(s.pts)
		d.series = append(d.series, s)
	}
	return d
}

// monthBounds picks query bounds for a month dataset: dataset edges, month boundaries (±1 ns),
// point times, instants inside months; sometimes months beyond the data on either side.
func (d *c41Dataset) monthBounds(rg *vkit.Rand) (int64, int64) {
	pt := func() int64 {
		s := vkit.Pick(rg, d.series)
		ts := s.sorted()
		return ts[rg.Intn(len(ts))]
	}
	edge := func() int64 {
		switch rg.Intn(6) {
		case 0:
			return d.base
		case 1:
			return d.base + d.span
		case 2:
			return pt() + int64(rg.Intn(2))
		case 3, 4:
			return c20MonthStart(d.m0+int64(rg.Intn(int(d.nm)+1))) + int64(rg.Intn(3)) - 1
		default:
			return d.base + int64(rg.Uint64()%uint64(d.span))
		}
	}
	lo, hi := edge(), edge()
	if rg.Chance(1, 4) {
		lo = c20MonthStart(d.m0-int64(rg.Intn(4))) - int64(rg.Intn(2))*int64(rg.Uint64()%uint64(20*c20Day))
	}
	if rg.Chance(1, 4) {
		hi = c20MonthStart(d.m0+d.nm+int64(rg.Intn(4))) + int64(rg.Intn(2))*int64(rg.Uint64()%uint64(20*c20Day))
	}
	if lo > hi {
		lo, hi = hi, lo
	}
	if lo == hi {
		hi = lo + 1 + int64(rg.Intn(100))*c20Day
	}
	return lo, hi
}

func c41GenDataset(rg *vkit.Rand, no int) *c41Dataset {
	d := &c41Dataset{no: no}
	d.base = vkit.Pick(rg, []int64{1609459200 * c41Sec, -2 * c41Hour, 1000000800 * c41Sec, -400000 * c41Hour})
	d.span = int64(rg.Range(1, 3)) * c41Hour
	d.everys = []int64{250_000_000, c41Sec, 7 * c41Sec, 10 * c41Sec, c41Min, 7 * c41Min, c41Hour, 90 * c41Min}
	types := []byte{'f', 'i', 'u', 's', 'b', 'f', 'i'}
	ns := rg.Range(4, 7)
	for i := 0; i < ns; i++ {
		typ := types[i]
		kind := "num"
		if typ == 's' || typ == 'b' {
			kind = "txt"
		}
		// numeric and string/boolean fields live in different measurements: the storage layer opens a
		// cursor for every (series, field of its measurement) pair, and min/max panic on a string cursor
		s := &c41Series{m: fmt.Sprintf("%s%d", map[string]string{"num": "m", "txt": "t"}[kind], i%2), field: "v" + string(typ), tags: map[string]string{"k": kind, "h": fmt.Sprintf("h%d", i)}, typ: typ, pts: map[int64]sk.Val{}}
		vmode := rg.Intn(2)
		add := func(t int64) {
			if t < d.base || t >= d.base+d.span {
				return
			}
			s.pts[t] = c20Value(rg, typ, vmode, len(s.pts))
		}
		switch rg.Intn(5) {
		case 0: // regular, whole span
			s.style = "regular"
			step := vkit.Pick(rg, []int64{2 * c41Sec, 10 * c41Sec, c41Min, 3 * c41Sec})
			jit := rg.Bool()
			for t := d.base; t < d.base+d.span; t += step {
				if jit {
					add(t + int64(rg.Uint64()%uint64(step)))
				} else {
					add(t)
				}
			}
		case 1: // a burst of >1000 consecutive seconds (or half seconds), then silence
			s.style = "burst"
			step := vkit.Pick(rg, []int64{c41Sec, c41Sec, c41Sec / 2})
			n := rg.Range(1100, 2600)
			t0 := d.base + int64(rg.Uint64()%uint64(d.span/2))
			t0 = t0 / c41Sec * c41Sec
			if rg.Bool() {
				t0 += int64(rg.Intn(1000)) * 1_000_000
			}
			for j := 0; j < n; j++ {
				add(t0 + int64(j)*step)
			}
		case 2: // sparse random nanoseconds
			s.style = "sparse"
			n := rg.Range(5, 200)
			for j := 0; j < n; j++ {
				add(d.base + int64(rg.Uint64()%uint64(d.span)))
			}
		case 3: // window edges: exactly on second/minute boundaries and the nanosecond before
			s.style = "edges"
			n := rg.Range(30, 400)
			for j := 0; j < n; j++ {
				unit := vkit.Pick(rg, []int64{c41Sec, 10 * c41Sec, c41Min, 7 * c41Min, c41Hour})
				t := d.base + int64(rg.Uint64()%uint64(d.span))
				t = t / unit * unit
				add(t - int64(rg.Intn(2)))
				if rg.Chance(1, 3) {
					add(t + 1)
				}
			}
		default: // clusters: dense groups separated by long silences
			s.style = "clusters"
			nc := rg.Range(2, 6)
			for c := 0; c < nc; c++ {
				t0 := d.base + int64(rg.Uint64()%uint64(d.span))
				n := rg.Range(3, 400)
				step := vkit.Pick(rg, []int64{c41Sec, 100_000_000, 3 * c41Sec})
				for j := 0; j < n; j++ {
					add(t0 + int64(j)*step)
				}
			}
		}
		if len(s.pts) == 0 {
			add(d.base + d.span/2)
		}
		d.nPts += len(s.pts)
		d.series = append(d.series, s)
	}
	return d
}

func (d *c41Dataset) load(env *c41Env, rg *vkit.Rand) error {
	mk := func(s *c41Series, t int64, v sk.Val) models.Point {
		return sk.Point(s.m, s.tags, map[string]sk.Val{s.field: v}, t)
	}
	var first, second []models.Point
	for _, s := range d.series {
		for _, t := range s.sorted() {
			v := s.pts[t]
			switch rg.Intn(8) {
			case 0: // written only after the snapshot (stays in the cache)
				second = append(second, mk(s, t, v))
			case 1: // written before with another value, overwritten after the snapshot
				first = append(first, mk(s, t, c20Value(rg, s.typ, 0, 7)))
				second = append(second, mk(s, t, v))
			default:
				first = append(first, mk(s, t, v))
			}
		}
	}
	if err := env.write(first); err != nil {
		return err
	}
	n, err := env.snapshotSome(rg, 3, 4)
	if err != nil {
		return err
	}
	d.snaps = n
	if err := env.write(second); err != nil {
		return err
	}
	if rg.Chance(1, 3) {
		n, err := env.snapshotSome(rg, 1, 2) // second generation of TSM files overlapping the first
		if err != nil {
			return err
		}
		d.snaps += n
	}
	return nil
}

// pickBounds for C20's store stream (no empty windows: size does not matter).
func (d *c41Dataset) pickBounds(rg *vkit.Rand) (int64, int64) {
	return d.bounds(rg, 0, 0)
}

// bounds picks query bounds; maxWindows > 0 caps (hi-lo)/every.
func (d *c41Dataset) bounds(rg *vkit.Rand, every int64, maxWindows int64) (int64, int64) {
	pt := func() int64 {
		s := vkit.Pick(rg, d.series)
		ts := s.sorted()
		return ts[rg.Intn(len(ts))]
	}
	edge := func() int64 {
		switch rg.Intn(6) {
		case 0:
			return d.base
		case 1:
			return d.base + d.span
		case 2:
			return pt()
		case 3:
			return pt() + 1
		case 4:
			u := vkit.Pick(rg, []int64{c41Sec, c41Min, 7 * c41Min, c41Hour})
			return (d.base+int64(rg.Uint64()%uint64(d.span)))/u*u + int64(rg.Intn(3)) - 1
		default:
			return d.base + int64(rg.Uint64()%uint64(d.span))
		}
	}
	lo, hi := edge(), edge()
	if rg.Chance(1, 4) {
		lo = d.base - int64(rg.Intn(3))*c41Min
	}
	if rg.Chance(1, 4) {
		hi = d.base + d.span + int64(rg.Intn(3))*c41Min
	}
	if lo > hi {
		lo, hi = hi, lo
	}
	if lo == hi {
		hi = lo + 1 + int64(rg.Intn(100))*c41Sec
	}
	if maxWindows > 0 && (hi-lo)/every > maxWindows {
		w := every * (maxWindows/2 + int64(rg.Uint64()%uint64(maxWindows/2)))
		if rg.Bool() {
			hi = lo + w
		} else {
			lo = hi - w
		}
	}
	return lo, hi
}

func c41NumPredicate() *datatypes.Predicate {
	return &datatypes.Predicate{Root: &datatypes.Node{
		NodeType: datatypes.Node_TypeComparisonExpression,
		Value:    &datatypes.Node_Comparison_{Comparison: datatypes.Node_ComparisonEqual},
		Children: []*datatypes.Node{
			{NodeType: datatypes.Node_TypeTagRef, Value: &datatypes.Node_TagRefValue{TagRefValue: "k"}},
			{NodeType: datatypes.Node_TypeLiteral, Value: &datatypes.Node_StringValue{StringValue: "num"}},
		},
	}}
}

// predFor: min/max panic and sum/mean error out on string/boolean series (outside the property);
// those aggregates are asked for the numeric series only.
func c41PredFor(agg int) *datatypes.Predicate {
	if agg == c20Count || agg == c20First || agg == c20Last {
		return nil
	}
	return c41NumPredicate()
}

// ---- reading flux tables -----------------------------------------------------------------------

type c41Row struct {
	start, stop  int64
	hasTime      bool
	time         int64
	timeNull     bool
	null         bool
	v            sk.Val
	startStopCol bool
}

type c41Table struct {
	series     string
	start      int64
	stop       int64
	hasTimeCol bool
	valType    flux.ColType
	rows       []c41Row
}

var errC41Runaway = errors.New("c41: runaway output")

// c41CountAlloc counts the buffer allocations of one query. A table implementation that keeps
// producing buffers which never reach the consumer (zero-length buffers swallowed by the
// window splitter) is stopped by a count, not by the clock.
type c41CountAlloc struct {
	inner    arrowmem.Allocator
	n, limit int
}

var errC41AllocRunaway = errors.New("c41: runaway buffer allocation without output")

func (a *c41CountAlloc) Allocate(size int) []byte {
	a.n++
	if a.n > a.limit {
		panic(errC41AllocRunaway)
	}
	return a.inner.Allocate(size)
}
func (a *c41CountAlloc) Reallocate(size int, b []byte) []byte { return a.inner.Reallocate(size, b) }
func (a *c41CountAlloc) Free(b []byte)                        { a.inner.Free(b) }

func c41ReadTable(tbl flux.Table, budget *int) (*c41Table, error) {
	out := &c41Table{}
	key := tbl.Key()
	var parts []string
	for j, c := range key.Cols() {
		switch c.Label {
		case execute.DefaultStartColLabel:
			out.start = int64(key.ValueTime(j))
		case execute.DefaultStopColLabel:
			out.stop = int64(key.ValueTime(j))
		default:
			parts = append(parts, c.Label+"="+key.ValueString(j))
		}
	}
	sort.Strings(parts)
	out.series = strings.Join(parts, ",")
	iStart, iStop, iTime, iVal := -1, -1, -1, -1
	for j, c := range tbl.Cols() {
		switch c.Label {
		case execute.DefaultStartColLabel:
			iStart = j
		case execute.DefaultStopColLabel:
			iStop = j
		case execute.DefaultTimeColLabel:
			iTime = j
		case execute.DefaultValueColLabel:
			iVal = j
			out.valType = c.Type
		}
	}
	out.hasTimeCol = iTime >= 0
	if iVal < 0 {
		tbl.Done()
		return nil, fmt.Errorf("table without _value column: %v", tbl.Cols())
	}
	err := tbl.Do(func(cr flux.ColReader) error {
		*budget -= cr.Len() + 1
		if *budget < 0 {
			return errC41Runaway
		}
		for i := 0; i < cr.Len(); i++ {
			row := c41Row{start: out.start, stop: out.stop}
			if iStart >= 0 && iStop >= 0 {
				row.startStopCol = true
				row.start, row.stop = cr.Times(iStart).Value(i), cr.Times(iStop).Value(i)
			}
			if iTime >= 0 {
				row.hasTime = true
				if cr.Times(iTime).IsNull(i) {
					row.timeNull = true
				} else {
					row.time = cr.Times(iTime).Value(i)
				}
			}
			switch out.valType {
			case flux.TFloat:
				if a := cr.Floats(iVal); a.IsNull(i) {
					row.null = true
				} else {
					row.v = sk.FloatVal(a.Value(i))
				}
			case flux.TInt:
				if a := cr.Ints(iVal); a.IsNull(i) {
					row.null = true
				} else {
					row.v = sk.IntVal(a.Value(i))
				}
			case flux.TUInt:
				if a := cr.UInts(iVal); a.IsNull(i) {
					row.null = true
				} else {
					row.v = sk.UintVal(a.Value(i))
				}
			case flux.TString:
				if a := cr.Strings(iVal); a.IsNull(i) {
					row.null = true
				} else {
					row.v = sk.StrVal(a.Value(i))
				}
			case flux.TBool:
				if a := cr.Bools(iVal); a.IsNull(i) {
					row.null = true
				} else {
					row.v = sk.BoolVal(a.Value(i))
				}
			default:
				return fmt.Errorf("unexpected _value type %v", out.valType)
			}
			out.rows = append(out.rows, row)
		}
		return nil
	})
	return out, err
}

// rawTables: the rows reader.ReadFilter returns per series for the bounds/predicate.
func (e *c41Env) rawTables(lo, hi int64, pred *datatypes.Predicate) (map[string]*c41Raw, []string, error) {
	ti, err := e.reader.ReadFilter(context.Background(), query.ReadFilterSpec{OrganizationID: e.org, BucketID: e.bucket,
		Bounds: execute.Bounds{Start: values.Time(lo), Stop: values.Time(hi)}, Predicate: pred}, memory.NewResourceAllocator(nil))
	if err != nil {
		return nil, nil, err
	}
	out := map[string]*c41Raw{}
	var order []string
	budget := 1 << 24
	err = ti.Do(func(tbl flux.Table) error {
		t, err := c41ReadTable(tbl, &budget)
		if err != nil {
			return err
		}
		raw := out[t.series]
		if raw == nil {
			raw = &c41Raw{}
			out[t.series] = raw
			order = append(order, t.series)
		}
		for _, r := range t.rows {
			if r.null || !r.hasTime || r.timeNull {
				return fmt.Errorf("filter read row without time/value in %s", t.series)
			}
			raw.pts = append(raw.pts, sk.Pt{T: r.time, V: r.v})
			raw.typ = r.v.K
		}
		return nil
	})
	return out, order, err
}

// ---- the table model ---------------------------------------------------------------------------

type c41Spec struct {
	Agg         int    `json:"-"`
	AggName     string `json:"agg"`
	Every       int64  `json:"every"`
	Offset      int64  `json:"offset"`
	EveryMo     int64  `json:"every_months,omitempty"`
	OffsetMo    int64  `json:"offset_months,omitempty"`
	Lo          int64  `json:"bounds_start"`
	Hi          int64  `json:"bounds_stop"`
	CreateEmpty bool   `json:"create_empty"`
	TimeColumn  string `json:"time_column"`
	Force       bool   `json:"force_aggregate"`
	NumericOnly bool   `json:"predicate_numeric_series_only"`
}

func (sp c41Spec) w() c20W {
	return c20W{Months: sp.EveryMo, Every: sp.Every, OffMonths: sp.OffsetMo, Offset: sp.Offset}
}

// c41Want is one expected window of one series.
type c41Want struct {
	cs, ce int64 // window clipped to the bounds
	ws, we int64 // the window
	empty  bool
	row    c20Row
}

// c41Windows lists the windows the tables must show for one series: the non-empty ones, or
// every window overlapping [lo,hi) when all is set.
func c41Windows(pts []sk.Pt, sp c41Spec, all bool) []c41Want {
	clip := func(s, e int64) (int64, int64) {
		if s < sp.Lo {
			s = sp.Lo
		}
		if e > sp.Hi {
			e = sp.Hi
		}
		return s, e
	}
	win := sp.w()
	nonEmpty := c20ExpectW(pts, sp.Agg, win)
	var out []c41Want
	if !all {
		for _, r := range nonEmpty {
			cs, ce := clip(r.Start, r.Stop)
			out = append(out, c41Want{cs: cs, ce: ce, ws: r.Start, we: r.Stop, row: r})
		}
		return out
	}
	k := 0
	for s, e := win.win(sp.Lo); s < sp.Hi; s, e = win.win(e) {
		cs, ce := clip(s, e)
		w := c41Want{cs: cs, ce: ce, ws: s, we: e, empty: true}
		if k < len(nonEmpty) && nonEmpty[k].Start == s {
			w.empty, w.row = false, nonEmpty[k]
			k++
		}
		out = append(out, w)
	}
	return out
}

func c41ValType(typ byte, agg int) byte {
	switch agg {
	case c20Count:
		return 'i'
	case c20Mean:
		return 'f'
	}
	return typ
}

var c41FluxType = map[byte]flux.ColType{'f': flux.TFloat, 'i': flux.TInt, 'u': flux.TUInt, 's': flux.TString, 'b': flux.TBool}

// c41Check compares the tables produced for one series with the model. Returns "" or a diff
// kind + detail.
func c41Check(sp c41Spec, typ byte, pts []sk.Pt, tabs []*c41Table) (kind, detail string, emptyWin, emptySelTables, emptySelNullRows int) {
	selector := c20IsSelector(sp.Agg)
	hasTime := sp.TimeColumn != ""
	vt := c41FluxType[c41ValType(typ, sp.Agg)]
	// which windows get a row
	all := sp.CreateEmpty
	if hasTime && selector && !sp.Force {
		// storage/flux/reader.go: with a time column (aggregateWindow) selectors never show
		// empty windows — aggregateWindow removes the empty tables a selector leaves
		all = false
	}
	want := c41Windows(pts, sp, all)
	for _, w := range want {
		if w.empty {
			emptyWin++
		}
	}
	checkVal := func(w c41Want, r c41Row, where string) (string, string) {
		if w.empty {
			if sp.Agg == c20Count {
				if r.null || r.v != sk.IntVal(0) {
					return "empty_window_value", fmt.Sprintf("%s: empty window [%d,%d) must carry count 0, got null=%v v=%s", where, w.cs, w.ce, r.null, r.v)
				}
				return "", ""
			}
			if !r.null {
				return "empty_window_value", fmt.Sprintf("%s: empty window [%d,%d) must carry null, got %s", where, w.cs, w.ce, r.v)
			}
			return "", ""
		}
		if r.null {
			return "null_for_nonempty_window", fmt.Sprintf("%s: window [%d,%d) has %d raw rows (want %s) but the value is null", where, w.cs, w.ce, w.row.N, w.row.V)
		}
		if r.v != w.row.V {
			return "value", fmt.Sprintf("%s: window [%d,%d) (%d raw rows): want %s got %s", where, w.cs, w.ce, w.row.N, w.row.V, r.v)
		}
		return "", ""
	}
	if hasTime {
		// one table per series, _start/_stop = bounds, one row per window, _time = window start|stop (clipped)
		if len(tabs) != 1 {
			if len(tabs) == 0 && len(want) == 0 {
				return
			}
			return "table_count", fmt.Sprintf("want 1 table for the series, got %d", len(tabs)), emptyWin, 0, 0
		}
		tb := tabs[0]
		if tb.start != sp.Lo || tb.stop != sp.Hi {
			return "table_bounds", fmt.Sprintf("table key _start/_stop = [%d,%d), want the query bounds [%d,%d)", tb.start, tb.stop, sp.Lo, sp.Hi), emptyWin, 0, 0
		}
		if !tb.hasTimeCol {
			return "columns", "table has no _time column although a time column was requested", emptyWin, 0, 0
		}
		if tb.valType != vt {
			return "value_type", fmt.Sprintf("_value column type %v, want %v", tb.valType, vt), emptyWin, 0, 0
		}
		for i := 0; i < len(want) || i < len(tb.rows); i++ {
			if i >= len(tb.rows) {
				return "missing_window", fmt.Sprintf("row %d: window [%d,%d) (empty=%v) has no row; table has %d rows, want %d", i, want[i].cs, want[i].ce, want[i].empty, len(tb.rows), len(want)), emptyWin, 0, 0
			}
			r := tb.rows[i]
			if i >= len(want) {
				return "extra_window", fmt.Sprintf("row %d: _time=%d v=%s null=%v beyond the %d expected windows", i, r.time, r.v, r.null, len(want)), emptyWin, 0, 0
			}
			w := want[i]
			wt := w.ce
			if sp.TimeColumn == execute.DefaultStartColLabel {
				wt = w.cs
			}
			if r.timeNull || r.time != wt {
				k := "window_time"
				if i+1 < len(want) {
					nt := want[i+1].ce
					if sp.TimeColumn == execute.DefaultStartColLabel {
						nt = want[i+1].cs
					}
					if r.time == nt {
						k = "missing_window"
					}
				}
				return k, fmt.Sprintf("row %d: _time=%d (null=%v), want %d = %s of window [%d,%d) clipped to [%d,%d) (empty=%v)", i, r.time, r.timeNull, wt, sp.TimeColumn, w.ws, w.we, w.cs, w.ce, w.empty), emptyWin, 0, 0
			}
			if r.start != sp.Lo || r.stop != sp.Hi {
				return "row_bounds", fmt.Sprintf("row %d: _start/_stop columns [%d,%d), want the query bounds", i, r.start, r.stop), emptyWin, 0, 0
			}
			if k, d := checkVal(w, r, fmt.Sprintf("row %d _time=%d", i, r.time)); k != "" {
				return k, d, emptyWin, 0, 0
			}
		}
		return
	}
	// no time column: one table per window, key _start/_stop = the clipped window
	for i := 0; i < len(want) || i < len(tabs); i++ {
		if i >= len(tabs) {
			k := "missing_window"
			if selector && len(tabs) > 0 && len(tabs)%reads.MaxPointsPerBlock == 0 {
				// everything up to a full 1000-window buffer was right and only empty windows are missing
				onlyEmpty := true
				for _, w := range want[i:] {
					if !w.empty {
						onlyEmpty = false
					}
				}
				if onlyEmpty {
					k = "trailing_empty_windows_dropped_after_full_buffer"
				}
			}
			return k, fmt.Sprintf("window %d [%d,%d) (empty=%v) has no table; got %d tables, want %d", i, want[i].cs, want[i].ce, want[i].empty, len(tabs), len(want)), emptyWin, emptySelTables, emptySelNullRows
		}
		tb := tabs[i]
		if i >= len(want) {
			return "extra_window", fmt.Sprintf("table %d [%d,%d) with %d rows beyond the %d expected windows", i, tb.start, tb.stop, len(tb.rows), len(want)), emptyWin, emptySelTables, emptySelNullRows
		}
		w := want[i]
		if tb.start != w.cs || tb.stop != w.ce {
			k := "window_bounds"
			if i+1 < len(want) && tb.start == want[i+1].cs && tb.stop == want[i+1].ce {
				k = "missing_window"
			}
			return k, fmt.Sprintf("table %d: _start/_stop = [%d,%d), want window [%d,%d) clipped to [%d,%d) (empty=%v)", i, tb.start, tb.stop, w.ws, w.we, w.cs, w.ce, w.empty), emptyWin, emptySelTables, emptySelNullRows
		}
		if tb.valType != vt {
			return "value_type", fmt.Sprintf("_value column type %v, want %v", tb.valType, vt), emptyWin, emptySelTables, emptySelNullRows
		}
		where := fmt.Sprintf("table %d [%d,%d)", i, tb.start, tb.stop)
		if w.empty && selector {
			// Flux: a selector leaves an EMPTY table for an empty window (query/storage.go,
			// storage/flux/window.go); a single null row is the same information. Either.
			switch {
			case len(tb.rows) == 0:
				emptySelTables++
				continue
			case len(tb.rows) == 1 && tb.rows[0].null:
				emptySelNullRows++
				continue
			}
			return "empty_window_value", fmt.Sprintf("%s: empty window of a selector must be an empty table or one null row, got %d rows (first %s)", where, len(tb.rows), tb.rows[0].v), emptyWin, emptySelTables, emptySelNullRows
		}
		if len(tb.rows) != 1 {
			return "row_count", fmt.Sprintf("%s: want exactly one row, got %d", where, len(tb.rows)), emptyWin, emptySelTables, emptySelNullRows
		}
		r := tb.rows[0]
		if r.startStopCol && (r.start != w.cs || r.stop != w.ce) {
			return "row_bounds", fmt.Sprintf("%s: row _start/_stop columns [%d,%d) differ from the table key", where, r.start, r.stop), emptyWin, emptySelTables, emptySelNullRows
		}
		if k, d := checkVal(w, r, where); k != "" {
			return k, d, emptyWin, emptySelTables, emptySelNullRows
		}
		if selector && !sp.Force && !w.empty {
			// selector tables keep the selected point's own time
			if !r.hasTime || r.timeNull {
				return "selector_time", fmt.Sprintf("%s: selector row has no _time", where), emptyWin, emptySelTables, emptySelNullRows
			}
			ok := r.time == w.row.T
			for _, a := range w.row.Alt {
				if a == r.time {
					ok = true
				}
			}
			if !ok {
				return "selector_time", fmt.Sprintf("%s: _time=%d, want %d%s (the selected row's time)", where, r.time, w.row.T, c20AltStr(w.row.Alt)), emptyWin, emptySelTables, emptySelNullRows
			}
		}
	}
	return
}

// ---- the check ---------------------------------------------------------------------------------

type c41Wit struct {
	Spec     c41Spec  `json:"spec"`
	Dataset  string   `json:"dataset"`
	Series   string   `json:"series"`
	Type     string   `json:"field_type"`
	DiffKind string   `json:"diff_kind"`
	Detail   string   `json:"detail"`
	NRaw     int      `json:"raw_rows_in_bounds"`
	RawHead  []string `json:"raw_rows_head"`
	RawTail  []string `json:"raw_rows_tail"`
	NTables  int      `json:"tables_for_series"`
	NRows    int      `json:"rows_for_series"`
	Replay   string   `json:"replay_hint"`
}

func c41Bool(b bool) string {
	if b {
		return "true"
	}
	return "false"
}

func TestC41(t *testing.T) {
	r := vkit.Start(t, "C41", "exploration")
	defer r.Finish()
	r.Rule("case = (dataset in a real store, aggregate, every, offset, query bounds, createEmpty, time column none|_start|_stop, forceAggregate); every series the filter read returns for the bounds is compared window by window; non-trivial = some series has ≥2 expected windows; distinct = hash of (dataset, spec). Stream 1: every in nanoseconds over datasets of 1–3 hours; stream 2: every ∈ {1,2,3,6,12} calendar months over datasets of 5–30 months (leap and non-leap Februaries, before and across 1970, points on month boundaries and 1 ns before them, months without points, several shards per series), all 7 aggregates equally often, 1 in 6 createEmpty queries of 1mo/2mo with 1001–2400 windows")
	r.Assume("raw rows = what the same reader's ReadFilter returns for the same bounds and predicate (statement); a series with no raw row in the bounds yields no table",
		"with a time column (aggregateWindow) selectors show only non-empty windows unless forceAggregate (storage/flux/reader.go comment; Flux drops the empty tables selectors leave)",
		"without a time column an empty window of a selector may be an empty table or one null row (Flux semantics; query/storage.go ForceAggregate comment)",
		"min/max/sum/mean are asked for numeric series only (tag predicate): on string/boolean input the storage layer panics / errors, which is outside this property",
		"offsets ≥ 0 (the planner never pushes a negative offset down), every ∈ {250ms … 90m} or {1,2,3,6,12} calendar months, period = every; for tied min/max any tied row's time is accepted",
		"calendar windows (doc comments of interval.NewWindow / interval.Window in the vendored flux v0.200.0 source: \"Window boundaries start at the epoch plus the offset. Each subsequent window starts at a multiple of the every duration\", window_start_i = zero + every*i; values.Time.Add adds months on the UTC calendar keeping day and clock): window i of every=M months, offset=K months + d ns starts at 00:00:00 UTC of the first day of month K+i*M counted from January 1970, plus d, and ends where window i+1 starts; d < 28 days so that the shifted start exists in every month (day-of-month clamping is not exercised); mixed every (months and nanoseconds) is invalid in Flux and not generated",
		"query bounds span at most 200 years (stop-start stays below 2^63 ns)")
	r.Trust("storage.Engine + v1/services/storage.Store + meta client on inmem KV assembled in-process as storage/flux/table_test.go does; background compactions, retention and precreator services off")

	nQueries := r.N(1500, 20000)
	perEnv := r.N(125, 400)
	nMonthQueries := r.N(960, 9600)
	perMonthEnv := r.N(96, 160)
	ctx := context.Background()
	maxAllocPerMille, maxAllocRatioN := 0, 1000
	sampled := false // set by exec when the query went into the evidence samples

	// exec runs one query against the env and compares every series with the model; false = stop the run
	exec := func(env *c41Env, ds *c41Dataset, envNo, qNo int, sp c41Spec, pred *datatypes.Predicate, sample bool) bool {
		win := sp.w()
		raw, order, err := env.rawTables(sp.Lo, sp.Hi, pred)
		if err != nil {
			r.Inconclusive("ReadFilter failed: " + err.Error())
			return true
		}
		// budget for runaway protection: the largest legitimate output
		budget := 5000
		for _, rw := range raw {
			budget += 3 * (len(rw.pts) + 2)
			if sp.CreateEmpty {
				budget += 3 * int((sp.Hi-sp.Lo)/win.approxEvery()+2)
			}
		}
		calloc := &c41CountAlloc{inner: arrowmem.DefaultAllocator, limit: 20000 + 5*budget}
		got := map[string][]*c41Table{}
		var gotOrder []string
		var qerr error
		finished := make(chan struct{})
		go func() {
			defer close(finished)
			defer func() {
				if p := recover(); p != nil {
					qerr = fmt.Errorf("panic: %v", p)
				}
			}()
			every := values.MakeDuration(sp.Every, sp.EveryMo, false)
			ti, err := env.reader.ReadWindowAggregate(ctx, query.ReadWindowAggregateSpec{
				ReadFilterSpec: query.ReadFilterSpec{OrganizationID: env.org, BucketID: env.bucket, Predicate: pred,
					Bounds: execute.Bounds{Start: values.Time(sp.Lo), Stop: values.Time(sp.Hi)}},
				Aggregates:     []plan.ProcedureKind{plan.ProcedureKind(sp.AggName)},
				Window:         execute.Window{Every: every, Period: every, Offset: values.MakeDuration(sp.Offset, sp.OffsetMo, false)},
				CreateEmpty:    sp.CreateEmpty,
				TimeColumn:     sp.TimeColumn,
				ForceAggregate: sp.Force,
			}, memory.NewResourceAllocator(calloc))
			if err != nil {
				qerr = err
				return
			}
			qerr = ti.Do(func(tbl flux.Table) error {
				tb, err := c41ReadTable(tbl, &budget)
				if err != nil {
					return err
				}
				if _, ok := got[tb.series]; !ok {
					gotOrder = append(gotOrder, tb.series)
				}
				got[tb.series] = append(got[tb.series], tb)
				return nil
			})
		}()
		select {
		case <-finished:
		case <-time.After(90 * time.Second):
			// last resort (a loop that neither emits nor allocates): undecided, and the engine
			// cannot be closed under a spinning reader
			r.Inconclusive("ReadWindowAggregate did not return within the 90 s watchdog")
			r.Extra("watchdog_spec", sp)
			return false
		}
		r.Event("buffer_allocations", int64(calloc.n))
		if calloc.n > maxAllocRatioN*1 && calloc.n*1000/(budget+1) > maxAllocPerMille {
			maxAllocPerMille = calloc.n * 1000 / (budget + 1)
			r.Extra("max_allocations_per_1000_budget_rows", maxAllocPerMille)
		}
		feats := func(typ byte, kind string) map[string]string {
			tc := sp.TimeColumn
			if tc == "" {
				tc = "none"
			}
			ou := "none"
			switch {
			case sp.OffsetMo != 0 && sp.Offset != 0:
				ou = "months+nsecs"
			case sp.OffsetMo != 0:
				ou = "months"
			case sp.Offset != 0:
				ou = "nsecs"
			}
			return map[string]string{"agg": sp.AggName, "type": c20TypeName(typ), "create_empty": c41Bool(sp.CreateEmpty), "time_column": tc, "force_aggregate": c41Bool(sp.Force), "diff": kind,
				"window_unit": win.unit(), "offset_unit": ou}
		}
		wit := func(series string, typ byte, kind, detail string) c41Wit {
			w := c41Wit{Spec: sp, Dataset: ds.describe(), Series: series, Type: c20TypeName(typ), DiffKind: kind, Detail: detail,
				Replay: fmt.Sprintf("VERIF_SEED=%d %sdataset %d query %d", r.Seed, ds.kind, envNo, qNo)}
			if rw := raw[series]; rw != nil {
				w.NRaw = len(rw.pts)
				w.RawHead = c20FmtPts(rw.pts, 12)
				if len(rw.pts) > 12 {
					w.RawTail = c20FmtPts(rw.pts[len(rw.pts)-6:], 6)
				}
			}
			w.NTables = len(got[series])
			for _, tb := range got[series] {
				w.NRows += len(tb.rows)
			}
			return w
		}
		// class names the failing table implementation + trigger narrowly (known findings match on it)
		report := func(typ byte, kind string, w c41Wit) {
			class := "window_table_mismatch"
			selector := c20IsSelector(sp.Agg)
			switch {
			case kind == "runaway_output" && selector && sp.Force && !sp.CreateEmpty:
				class = "force_aggregate_selector_without_create_empty_never_ends"
			case kind == "trailing_empty_windows_dropped_after_full_buffer" && selector && sp.CreateEmpty && sp.TimeColumn == "" && !sp.Force:
				class = "empty_window_selector_table_drops_trailing_windows"
			}
			r.Event("violations_"+class, 1)
			if win.isMonths() {
				r.Event("month_violations_"+class, 1)
			}
			r.Violation(class, feats(typ, kind), w)
		}
		nonTrivial := false
		if qerr != nil {
			kind := "error"
			if errors.Is(qerr, errC41Runaway) || strings.Contains(qerr.Error(), errC41Runaway.Error()) {
				kind = "runaway_output"
			} else if strings.Contains(qerr.Error(), errC41AllocRunaway.Error()) {
				kind = "runaway_without_output"
			}
			typ := byte('f')
			ser := ""
			if len(gotOrder) > 0 {
				ser = gotOrder[len(gotOrder)-1]
				if rw := raw[ser]; rw != nil {
					typ = rw.typ
				}
			}
			report(typ, kind, wit(ser, typ, kind, qerr.Error()))
		} else {
			for _, series := range order {
				rw := raw[series]
				kind, detail, ew, est, esn := c41Check(sp, rw.typ, rw.pts, got[series])
				r.Event("series_compared", 1)
				r.Event("empty_windows_expected", int64(ew))
				r.Event("selector_empty_window_as_empty_table", int64(est))
				r.Event("selector_empty_window_as_null_row", int64(esn))
				nw := len(c20ExpectW(rw.pts, sp.Agg, win))
				r.Event("nonempty_windows_compared", int64(nw))
				if win.isMonths() {
					r.Event("month_series_compared", 1)
					r.Event("month_nonempty_windows_compared", int64(nw))
					r.Event("month_empty_windows_expected", int64(ew))
				}
				if nw >= 2 {
					nonTrivial = true
				}
				if nw+ew > reads.MaxPointsPerBlock {
					r.Event("series_with_over_1000_windows", 1)
					if win.isMonths() {
						r.Event("month_series_with_over_1000_windows", 1)
					}
				}
				if kind != "" {
					report(rw.typ, kind, wit(series, rw.typ, kind, detail))
					break
				}
			}
			for _, series := range gotOrder {
				if raw[series] != nil {
					continue
				}
				// a series the filter read does not return must not carry values
				r.Event("tables_for_series_without_raw_rows", 1)
				for _, tb := range got[series] {
					for _, row := range tb.rows {
						if !row.null && !(sp.Agg == c20Count && row.v == sk.IntVal(0)) {
							report('f', "phantom_series", wit(series, 'f', "phantom_series", fmt.Sprintf("value %s for a series the filter read does not return", row.v)))
						}
					}
				}
			}
		}
		tc := sp.TimeColumn
		r.Event("queries_timecol_"+map[string]string{"": "none", "_start": "start", "_stop": "stop"}[tc], 1)
		if sp.CreateEmpty {
			r.Event("queries_create_empty", 1)
		}
		if sp.Force {
			r.Event("queries_force_aggregate", 1)
		}
		r.Case(fmt.Sprint(ds.describe(), sp), nonTrivial)
		if sample && r.WantSample() && nonTrivial {
			smp := map[string]any{"spec": sp, "dataset": ds.describe(), "series_in_bounds": len(order)}
			if len(order) > 0 {
				rw := raw[order[0]]
				var ws []string
				for i, w := range c41Windows(rw.pts, sp, sp.CreateEmpty) {
					if i >= 4 {
						ws = append(ws, "…")
						break
					}
					if w.empty {
						ws = append(ws, fmt.Sprintf("[%d,%d) empty", w.cs, w.ce))
					} else {
						ws = append(ws, fmt.Sprintf("[%d,%d) %d raw rows -> %s", w.cs, w.ce, w.row.N, w.row.V))
					}
				}
				smp["first_series"] = order[0]
				smp["first_series_raw_rows"] = len(rw.pts)
				smp["first_series_tables"] = len(got[order[0]])
				smp["first_series_expected_windows_head"] = ws
			}
			r.Sample(smp)
			sampled = true
		}
		return true
	}

	// ---- stream 1: nanosecond windows over datasets of 1–3 hours (shard groups of 1h) -------------
	done := 0
	nsSamples := 0
	for envNo := 0; done < nQueries; envNo++ {
		rg := r.SubRand("env", envNo)
		env, err := c41OpenEnv(t.TempDir())
		if err != nil {
			r.Inconclusive("real store could not be opened: " + err.Error())
			return
		}
		ds := c41GenDataset(rg, envNo)
		if err := ds.load(env, rg); err != nil {
			env.Close()
			r.Inconclusive("real store write failed: " + err.Error())
			return
		}
		r.Event("datasets", 1)
		r.Event("points_written_distinct", int64(ds.nPts))
		r.Event("shard_snapshots", int64(ds.snaps))
		for q := 0; q < perEnv && done < nQueries; q, done = q+1, done+1 {
			qg := r.Rand(done)
			sp := c41Spec{Agg: qg.Intn(7)}
			sp.AggName = c20AggNames[sp.Agg]
			sp.Every = vkit.Pick(qg, ds.everys)
			switch qg.Intn(6) {
			case 0:
				sp.Offset = 1
			case 1:
				sp.Offset = sp.Every - 1
			case 2:
				sp.Offset = sp.Every + vkit.Pick(qg, []int64{0, 1, c41Sec})
			case 3:
				sp.Offset = int64(qg.Uint64() % uint64(3*sp.Every))
			}
			sp.CreateEmpty = qg.Bool()
			sp.TimeColumn = vkit.Pick(qg, []string{"", "", execute.DefaultStartColLabel, execute.DefaultStopColLabel})
			sp.Force = qg.Chance(1, 4)
			maxW := int64(0)
			if sp.CreateEmpty {
				maxW = 2600
			}
			sp.Lo, sp.Hi = ds.bounds(qg, sp.Every, maxW)
			pred := c41PredFor(sp.Agg)
			sp.NumericOnly = pred != nil
			// (two of the six evidence samples are left to the month stream)
			sampled = false
			if !exec(env, ds, envNo, done, sp, pred, nsSamples < 4 && done%211 == 3) {
				return
			}
			if sampled {
				nsSamples++
			}
		}
		env.Close()
	}

	// ---- stream 2: calendar-month windows over datasets of 5–30 months ----------------------------
	if msg := c20CalendarSelfTest(r.SubRand("calendar-selftest", 0)); msg != "" {
		r.Inconclusive("the oracle's calendar arithmetic disagrees with package time: " + msg)
		return
	}
	r.Event("calendar_selftest_months_checked", c20MaxMonth-c20MinMonth+1)
	tMonths := time.Now() // reporting only
	for envNo, mdone := 0, 0; mdone < nMonthQueries; envNo++ {
		rg := r.SubRand("month-env", envNo)
		ds := c41GenMonthDataset(rg, envNo)
		env, err := c41OpenEnvSGD(t.TempDir(), ds.sgd)
		if err != nil {
			r.Inconclusive("real store could not be opened: " + err.Error())
			return
		}
		if err := ds.load(env, rg); err != nil {
			env.Close()
			r.Inconclusive("real store write failed: " + err.Error())
			return
		}
		ds.shards = env.shardCount()
		r.Event("month_datasets", 1)
		r.Event("month_dataset_shards", int64(ds.shards))
		r.Event("month_dataset_months", ds.nm)
		r.Event("points_written_distinct", int64(ds.nPts))
		r.Event("shard_snapshots", int64(ds.snaps))
		for q := 0; q < perMonthEnv && mdone < nMonthQueries; q, mdone = q+1, mdone+1 {
			qg := r.SubRand("month-query", mdone)
			sp := c41Spec{Agg: mdone % 7} // every aggregate equally often
			sp.AggName = c20AggNames[sp.Agg]
			sp.EveryMo = vkit.Pick(qg, c20MonthEverys)
			sp.OffsetMo, sp.Offset = c20MonthOffsets(qg, sp.EveryMo)
			sp.CreateEmpty = qg.Bool()
			sp.TimeColumn = vkit.Pick(qg, []string{"", "", execute.DefaultStartColLabel, execute.DefaultStopColLabel})
			sp.Force = qg.Chance(1, 4)
			sp.Lo, sp.Hi = ds.monthBounds(qg)
			if sp.CreateEmpty && sp.EveryMo <= 2 && qg.Chance(1, 6) {
				// wide bounds: 1001–2400 windows of 1mo (1001–1200 of 2mo), i.e. one or two full 1000-window buffers around the data
				// (at most 2400 months = 200 years, so that stop-start stays far below 2^63 ns)
				nMo := int64(qg.Range(1001, int(2400/sp.EveryMo))) * sp.EveryMo
				loM := ds.m0 - int64(qg.Intn(24))
				if qg.Bool() {
					loM = ds.m0 + ds.nm - int64(qg.Intn(int(nMo)))
				}
				if loM < c20MinMonth {
					loM = c20MinMonth
				}
				if loM+nMo > c20MaxMonth {
					loM = c20MaxMonth - nMo
				}
				sp.Lo = c20MonthStart(loM) + int64(qg.Intn(3)) - 1
				sp.Hi = c20MonthStart(loM+nMo) + int64(qg.Intn(3)) - 1
				r.Event("month_queries_wide_bounds", 1)
			}
			pred := c41PredFor(sp.Agg)
			sp.NumericOnly = pred != nil
			r.Event("month_queries", 1)
			r.Event(fmt.Sprintf("month_queries_every_%dmo", sp.EveryMo), 1)
			r.Event("month_queries_agg_"+sp.AggName, 1)
			switch {
			case sp.OffsetMo != 0 && sp.Offset != 0:
				r.Event("month_queries_offset_months_and_nsecs", 1)
			case sp.OffsetMo != 0:
				r.Event("month_queries_offset_months", 1)
			case sp.Offset != 0:
				r.Event("month_queries_offset_nsecs", 1)
			}
			if !exec(env, ds, envNo, mdone, sp, pred, mdone%53 == 7) {
				return
			}
		}
		env.Close()
	}
	r.Extra("month_stream_wall_s", int(time.Since(tMonths).Seconds())) // reporting only
}
