package g_task

// C24 — the tree scheduler dispatches each due run once, in order, never concurrently with
// itself, stops on Release, reports the earliest pending due time and does not spin.
//
// Subject: the real scheduler.TreeScheduler. Part A drives it with the benbjohnson mock clock
// through Schedule / Release / hold-executor / advance histories; part B uses the real clock and
// schedule control (parking the loop goroutine at a verifhook point) to release the soonest
// task exactly between "timer fired" and "queue inspected", then counts loop iterations.
// Oracle: event log {Schedule, Release, ExecCall, ExecReturn, Checkpoint, Dispatch(hook),
// LoopIter(hook), TimerFire(hook)} stamped by one logical counter; expected run times from the
// cron library's Next (trusted) over the model's own bookkeeping. All verdicts are on counts and
// on the event order, none on elapsed time.
//
// Settling. After every harness action the harness waits until the scheduler cannot move any
// more, decided on a stop-the-world goroutine dump (runtime.Stack): the loop goroutine is parked
// in its select and every worker is parked in its channel receive or inside a held executor
// ("parked"); or — the loop retries a due item for a busy worker in a tight loop by design —
// two further loop iterations completed with unchanged worker states and no dispatch ("spin").
//
// Mock clock discipline. The mock fires timers synchronously inside Set and sleeps 1 ms per
// tick; a Reset that races with the end of Set is computed against the wrong "now" (artefact of
// the mock, not of the scheduler). The harness therefore never moves the clock across a pending
// timer: it first pokes the clock (Set(now)), then steps to each reported When() inside the
// target interval, settling after each step, then moves to the target.

import (
	"context"
	"fmt"
	"runtime"
	"sort"
	"strings"
	"sync"
	"sync/atomic"
	"testing"
	"time"

	"github.com/benbjohnson/clock"
	"github.com/influxdata/cron"
	"github.com/influxdata/influxdb/v2/pkg/verifhook"
	"github.com/influxdata/influxdb/v2/task/backend/scheduler"

	"verifharness/vkit"
)

// ---- global hook routing (one scheduler alive at a time) -------------------------------------------

type c24Hooks struct {
	iters     atomic.Int64
	fires     atomic.Int64
	dispatch  atomic.Int64
	onDisp    func(id scheduler.ID, next time.Time)
	parkTimer atomic.Pointer[c24Park]
}

type c24Park struct {
	reached chan struct{}
	release chan struct{}
	used    atomic.Bool
}

var c24Cur atomic.Pointer[c24Hooks]

var (
	c24ExMu     sync.Mutex
	c24Examples = map[string]any{} // first witness per violation class, for the evidence file
)

// set when a scheduler could not be stopped: its goroutines keep running, later goroutine dumps
// would be ambiguous, so no further history is started
var c24Fatal atomic.Bool
var c24HookOnce sync.Once

func c24InstallHooks() {
	c24HookOnce.Do(func() {
		verifhook.Set("scheduler.loop.iter", func(string, interface{}) {
			if h := c24Cur.Load(); h != nil {
				h.iters.Add(1)
			}
		})
		verifhook.Set("scheduler.loop.timer", func(string, interface{}) {
			if h := c24Cur.Load(); h != nil {
				h.fires.Add(1)
				if p := h.parkTimer.Load(); p != nil && p.used.CompareAndSwap(false, true) {
					p.reached <- struct{}{}
					<-p.release
				}
			}
		})
		verifhook.Set("scheduler.dispatch", func(_ string, arg interface{}) {
			if h := c24Cur.Load(); h != nil {
				h.dispatch.Add(1)
				if it, ok := arg.(scheduler.Item); ok && h.onDisp != nil {
					h.onDisp(it.VerifID(), it.Next())
				}
			}
		})
	})
}

// ---- schedulable ------------------------------------------------------------------------------------

type c24Sch struct {
	id   scheduler.ID
	sch  scheduler.Schedule
	off  time.Duration
	last time.Time
}

func (s c24Sch) ID() scheduler.ID             { return s.id }
func (s c24Sch) Schedule() scheduler.Schedule { return s.sch }
func (s c24Sch) Offset() time.Duration        { return s.off }
func (s c24Sch) LastScheduled() time.Time     { return s.last }

// ---- goroutine-dump based settle -----------------------------------------------------------------------

type c24Dump struct {
	loopParked bool
	loopSeen   bool
	idle       int
	held       int
	transit    int
}

var c24StackBuf = make([]byte, 4<<20)

func c24TakeDump() c24Dump {
	n := runtime.Stack(c24StackBuf, true)
	var d c24Dump
	for _, blk := range strings.Split(string(c24StackBuf[:n]), "\n\n") {
		isLoop := strings.Contains(blk, "scheduler.NewScheduler.func")
		isWorker := strings.Contains(blk, "scheduler.(*TreeScheduler).work(")
		if !isLoop && !isWorker {
			continue
		}
		lines := strings.Split(blk, "\n")
		hdr := lines[0]
		st := ""
		if i := strings.IndexByte(hdr, '['); i >= 0 {
			st = hdr[i+1:]
		}
		top := ""
		for _, ln := range lines[1:] {
			if strings.HasPrefix(ln, "\t") || strings.HasPrefix(ln, "created by") {
				continue
			}
			if strings.HasPrefix(ln, "runtime.") || strings.HasPrefix(ln, "internal/") || strings.HasPrefix(ln, "sync.") || strings.HasPrefix(ln, "sync/") {
				continue
			}
			top = ln
			break
		}
		if isWorker {
			switch {
			case strings.Contains(top, "(*TreeScheduler).work(") && strings.HasPrefix(st, "chan receive"):
				d.idle++
			case strings.Contains(top, "c24Exec).waitGate") && (strings.HasPrefix(st, "chan receive") || strings.HasPrefix(st, "select")):
				d.held++
			default:
				d.transit++
			}
			continue
		}
		d.loopSeen = true
		d.loopParked = strings.HasPrefix(st, "select") && strings.Contains(top, "scheduler.NewScheduler.func")
	}
	return d
}

// ---- world ----------------------------------------------------------------------------------------------

type c24Spec struct {
	Cron   string        `json:"cron"`
	Offset time.Duration `json:"offset"`
}

type c24Task struct {
	id        scheduler.ID
	spec      c24Spec
	parsed    cron.Parsed
	scheduled bool
	next      time.Time // next run the model expects for the current incarnation
	inc       int
	execs     int
	incStamp  int64    // logical time at which the Schedule call of this incarnation returned
	relStamp  int64    // logical time at which the last Release call returned
	prev      *c24Task // the incarnation replaced by the last Schedule call
}

type c24ExecEv struct {
	id     scheduler.ID
	sf, ra time.Time
	stamp  int64
}

type c24World struct {
	r     *vkit.Run
	no    int
	hk    *c24Hooks
	mock  *clock.Mock
	s     *scheduler.TreeScheduler
	stamp atomic.Int64

	mu       sync.Mutex
	execs    []c24ExecEv // ExecCall events, in arrival order
	rets     int
	ckpts    []c24ExecEv
	disp     []c24ExecEv
	active   map[scheduler.ID]int
	overlap  []string
	holdNext map[scheduler.ID]bool
	gates    map[scheduler.ID]chan struct{}
	errNext  map[scheduler.ID]string

	tasks     map[scheduler.ID]*c24Task
	workers   int
	log       []string
	seenExec  int
	seenDisp  int
	histWhens map[int64]bool
	aborted   bool
	violated  bool
	ops       int
	setsHeld  int64
	settles   []int64 // logical times at which the scheduler was seen settled (nothing in transit)
}

type c24Exec struct{ w *c24World }

//go:noinline
func (e *c24Exec) waitGate(g chan struct{}) { <-g }

func (e *c24Exec) Execute(ctx context.Context, id scheduler.ID, sf, ra time.Time) error {
	w := e.w
	w.mu.Lock()
	w.active[id]++
	if w.active[id] > 1 {
		w.overlap = append(w.overlap, fmt.Sprintf("task %d: run for %s started while another run of it is executing", id, sf.UTC().Format(time.RFC3339Nano)))
	}
	if len(w.execs) < 200000 { // a scheduler gone wild must not eat the memory
		w.execs = append(w.execs, c24ExecEv{id, sf, ra, w.stamp.Add(1)})
	}
	var gate chan struct{}
	if w.holdNext[id] {
		delete(w.holdNext, id)
		gate = make(chan struct{})
		w.gates[id] = gate
	}
	mode := w.errNext[id]
	delete(w.errNext, id)
	w.mu.Unlock()
	if gate != nil {
		e.waitGate(gate)
	}
	w.mu.Lock()
	w.active[id]--
	w.rets++
	w.stamp.Add(1)
	w.mu.Unlock()
	switch mode {
	case "error":
		return fmt.Errorf("scripted executor error")
	case "panic":
		panic("scripted executor panic")
	}
	return nil
}

func (w *c24World) UpdateLastScheduled(ctx context.Context, id scheduler.ID, t time.Time) error {
	w.mu.Lock()
	w.ckpts = append(w.ckpts, c24ExecEv{id: id, sf: t, stamp: w.stamp.Add(1)})
	w.mu.Unlock()
	return nil
}

func (w *c24World) logf(f string, a ...any) {
	if len(w.log) < 400 {
		w.log = append(w.log, fmt.Sprintf(f, a...))
	}
}

type c24Wit struct {
	History int      `json:"history"`
	Workers int      `json:"workers"`
	Log     []string `json:"event_log"`
	Problem string   `json:"problem"`
}

func (w *c24World) fail(class, trigger, problem string) {
	w.violated = true
	w.r.Event("violation_"+class, 1)
	lg := w.log
	if len(lg) > 120 {
		lg = append(append([]string(nil), lg[:20]...), append([]string{"..."}, lg[len(lg)-90:]...)...)
	}
	wit := c24Wit{History: w.no, Workers: w.workers, Log: append([]string(nil), lg...), Problem: problem}
	c24ExMu.Lock()
	if _, ok := c24Examples[class]; !ok {
		c24Examples[class] = wit
	}
	c24ExMu.Unlock()
	w.r.Violation(class, map[string]string{"trigger": trigger, "clock": "mock"}, wit)
}

const c24Watchdog = 20 * time.Second

// settle waits until the scheduler cannot move; returns "parked", "spin" or "" (inconclusive).
func (w *c24World) settle() string {
	deadline := time.Now().Add(c24Watchdog)
	for time.Now().Before(deadline) {
		dispBefore := w.hk.dispatch.Load() // read BEFORE the first dump
		d := c24TakeDump()
		w.mu.Lock()
		held := len(w.gates)
		w.mu.Unlock()
		if !d.loopSeen || d.transit > 0 || d.idle+d.held != w.workers || d.held != held {
			runtime.Gosched()
			time.Sleep(50 * time.Microsecond)
			continue
		}
		if d.loopParked {
			w.settles = append(w.settles, w.stamp.Add(1))
			return "parked"
		}
		// The loop goroutine is busy. It is at a fixpoint iff a complete pass ran while every
		// worker stayed idle/held and dispatched nothing: workers idle in two dumps with no
		// dispatch from before the first to after the second were idle all the time in between
		// (a worker leaves idle only through a dispatch), and two iteration starts after the
		// first dump bracket one complete pass.
		i0 := w.hk.iters.Load()
		ok := false
		for time.Now().Before(deadline) {
			if w.hk.iters.Load() >= i0+2 {
				ok = true
				break
			}
			if c24TakeDump().loopParked {
				break
			}
			runtime.Gosched()
		}
		d2 := c24TakeDump()
		dispAfter := w.hk.dispatch.Load()
		if d2.loopSeen && d2.loopParked && d2.transit == 0 && d2.idle+d2.held == w.workers && d2.held == held {
			w.settles = append(w.settles, w.stamp.Add(1))
			return "parked"
		}
		if ok && d2.transit == 0 && d2.idle == d.idle && d2.held == d.held && d2.held == held && dispAfter == dispBefore {
			w.r.Event("settled_while_loop_retries_busy_worker", 1)
			w.settles = append(w.settles, w.stamp.Add(1))
			return "spin"
		}
	}
	w.r.Inconclusive("scheduler did not settle within the watchdog")
	w.aborted = true
	return ""
}

// process consumes the events that arrived since the last settled point and applies the safety
// rules; full says the point is fully quiescent (loop parked, nothing held), where completeness
// and When() are judged too.
func (w *c24World) process(full bool) {
	w.mu.Lock()
	execs := append([]c24ExecEv(nil), w.execs[w.seenExec:]...)
	w.seenExec = len(w.execs)
	disp := append([]c24ExecEv(nil), w.disp[w.seenDisp:]...)
	w.seenDisp = len(w.disp)
	overlap := w.overlap
	w.overlap = nil
	nExec, nDisp := len(w.execs), len(w.disp)
	w.mu.Unlock()
	now := w.mock.Now()
	for _, o := range overlap {
		w.fail("self_concurrent_run", "executor_busy", o)
	}
	usedDisp := make([]bool, len(disp))
	for _, e := range execs {
		if w.violated {
			break // one report per history
		}
		w.r.Event("exec_calls_checked", 1)
		// the dispatch event of this call: first unused one for the same (task, scheduledFor)
		dstamp := int64(1) << 62
		for i, d := range disp {
			if !usedDisp[i] && d.id == e.id && d.sf.Equal(e.sf) {
				usedDisp[i], dstamp = true, d.stamp
				break
			}
		}
		t := w.tasks[e.id]
		w.logf("  exec task=%d scheduledFor=%s runAt=%s", e.id, c24T(e.sf), c24T(e.ra))
		if t == nil {
			w.fail("run_of_unknown_task", "dispatch", fmt.Sprintf("executor called for task %d which was never scheduled", e.id))
			continue
		}
		// a dispatch that happened before the last Schedule call returned may still belong to the
		// incarnation that call replaced (the loop goroutine runs concurrently with the caller)
		// (only if that run was due under the replaced incarnation: the new one may name the same
		// scheduled time with an earlier due time, e.g. the same @every spec with a negative offset)
		if t.prev != nil && dstamp < t.incStamp && t.prev.scheduled && e.sf.Equal(t.prev.next) && !t.prev.next.Add(t.prev.spec.Offset).After(now) {
			w.r.Event("run_attributed_to_replaced_incarnation", 1)
			if n, err := t.prev.parsed.Next(t.prev.next); err == nil {
				t.prev.next = n
			}
			continue
		}
		live := t.scheduled
		if !live && dstamp < t.relStamp {
			live = true // dispatched before Release returned: the unavoidable in-flight hand-off
			w.r.Event("run_dispatched_before_release_returned", 1)
			// ... which is over once the scheduler has been seen settled (loop parked or retrying,
			// every worker idle or inside a held executor, nothing in transit): a hand-off goes to
			// a worker that takes the run at once. A run that starts after such a point was kept
			// somewhere Release could not reach.
			for _, st := range w.settles {
				if st > t.relStamp && st < e.stamp {
					live = false
					w.fail("run_after_release", "release_then_settled", fmt.Sprintf("task %d: run for %s started after Release(%d) had returned and the scheduler had settled in between (it was handed over before the Release, but not to a worker that was free to run it)", e.id, c24T(e.sf), e.id))
					break
				}
			}
			if !live {
				continue
			}
		}
		switch {
		case !live:
			w.fail("run_after_release", "release", fmt.Sprintf("task %d: run for %s was dispatched after Release(%d) had returned", e.id, c24T(e.sf), e.id))
		case !e.sf.Equal(t.next):
			w.fail("wrong_run_time", "dispatch", fmt.Sprintf("task %d (%s offset %v): executor called for %s, the next run after the previous one is %s", e.id, t.spec.Cron, t.spec.Offset, c24T(e.sf), c24T(t.next)))
			// resynchronise so that one slip is one report
			if e.sf.After(t.next) {
				if n, err := t.parsed.Next(e.sf); err == nil {
					t.next = n
				}
			}
		default:
			if !e.ra.Equal(e.sf.Add(t.spec.Offset)) {
				w.fail("wrong_run_at", "dispatch", fmt.Sprintf("task %d: runAt %s != scheduledFor %s + offset %v", e.id, c24T(e.ra), c24T(e.sf), t.spec.Offset))
			}
			if e.sf.Add(t.spec.Offset).After(now) {
				w.fail("run_before_due", "dispatch", fmt.Sprintf("task %d: run for %s (+offset %v) started at clock %s", e.id, c24T(e.sf), t.spec.Offset, c24T(now)))
			}
			t.execs++
			if n, err := t.parsed.Next(t.next); err == nil {
				t.next = n
				w.histWhens[n.Add(t.spec.Offset).UnixNano()] = true
			} else {
				t.scheduled = false // the schedule has no further activation
			}
		}
	}
	_ = disp
	w.notePending()
	if nExec != nDisp {
		w.fail("dispatch_exec_mismatch", "dispatch", fmt.Sprintf("%d dispatch events but %d executor calls at a settled point", nDisp, nExec))
	}
	if !full || w.violated {
		return
	}
	// completeness
	ids := w.ids()
	var pending []time.Time
	for _, id := range ids {
		t := w.tasks[id]
		if !t.scheduled {
			continue
		}
		due := t.next.Add(t.spec.Offset)
		pending = append(pending, due)
		w.r.Event("completeness_checks", 1)
		if !due.After(now) {
			w.fail("missed_run", "clock_advance", fmt.Sprintf("task %d (%s offset %v): run for %s is due since %s, clock is %s, scheduler is idle, executor free — not dispatched", id, t.spec.Cron, t.spec.Offset, c24T(t.next), c24T(due), c24T(now)))
			return
		}
	}
	// When()
	wh := w.s.When()
	w.r.Event("when_checks", 1)
	sort.Slice(pending, func(i, j int) bool { return pending[i].Before(pending[j]) })
	switch {
	case wh.IsZero():
		if len(pending) > 0 {
			w.fail("when_zero_but_pending", "when", fmt.Sprintf("When() is zero but the earliest pending run is due at %s", c24T(pending[0])))
		}
	case !wh.After(now):
		w.fail("when_in_past", "when", fmt.Sprintf("When()=%s is not after the clock %s although nothing is due and the scheduler is idle (earliest pending: %v)", c24T(wh), c24T(now), c24Ts(pending)))
	case len(pending) > 0 && wh.After(pending[0]):
		w.fail("when_later_than_earliest", "when", fmt.Sprintf("When()=%s but the earliest pending run is due at %s", c24T(wh), c24T(pending[0])))
	case len(pending) == 0 || wh.Before(pending[0]):
		// allowed only as the documented leftover of a Release / re-Schedule: a time that was pending once
		if !w.histWhens[wh.UnixNano()] {
			w.fail("when_unexplained", "when", fmt.Sprintf("When()=%s was never the due time of any scheduled run (earliest pending: %v)", c24T(wh), c24Ts(pending)))
		} else {
			w.r.Event("when_stale_future_allowed", 1)
		}
	}
	for _, p := range pending {
		w.histWhens[p.UnixNano()] = true
	}
}

func c24T(t time.Time) string { return t.UTC().Format("15:04:05.000000000") }
func c24Ts(ts []time.Time) []string {
	out := make([]string, len(ts))
	for i, t := range ts {
		out[i] = c24T(t)
	}
	return out
}

func (w *c24World) ids() []scheduler.ID {
	ids := make([]scheduler.ID, 0, len(w.tasks))
	for id := range w.tasks {
		ids = append(ids, id)
	}
	sort.Slice(ids, func(i, j int) bool { return ids[i] < ids[j] })
	return ids
}

func (w *c24World) notePending() {
	for _, t := range w.tasks {
		if t.scheduled {
			w.histWhens[t.next.Add(t.spec.Offset).UnixNano()] = true
		}
	}
}

// setClock moves the mock clock to t (>= now) with livelock detection: the number of timer fires
// during one Set may exceed the number of dispatches only by a small constant.
func (w *c24World) setClock(t time.Time) bool {
	if w.s.VerifTimerPending() > 0 {
		// an unread tick: the mock would block inside Set holding its mutex (see package comment)
		w.r.Event("clock_move_skipped_unread_tick", 1)
		return false
	}
	f0, d0 := w.hk.fires.Load(), w.hk.dispatch.Load()
	done := make(chan struct{})
	go func() { w.mock.Set(t); close(done) }()
	deadline := time.Now().Add(c24Watchdog)
	for {
		select {
		case <-done:
			return true
		default:
		}
		fires, disp := w.hk.fires.Load()-f0, w.hk.dispatch.Load()-d0
		if fires > disp+8 {
			w.logf("  clock.Set(%s): timer fired %d times, %d dispatches — loop runs without anything due", c24T(t), fires, disp)
			w.fail("busy_loop", "timer_fired_head_in_future", fmt.Sprintf("while the clock is moved to %s the scheduler timer fired %d times with %d dispatches: the loop re-arms its timer in the past although the head of the queue is not due", c24T(t), fires, disp))
			w.aborted = true
			// break the livelock: with an empty queue the loop stops re-arming
			for _, id := range w.ids() {
				w.s.Release(id)
			}
			select {
			case <-done:
			case <-time.After(c24Watchdog):
				w.r.Inconclusive("mock clock Set did not return after the queue was emptied")
			}
			return false
		}
		if time.Now().After(deadline) {
			w.r.Inconclusive("mock clock Set did not return within the watchdog")
			w.aborted = true
			return false
		}
		time.Sleep(100 * time.Microsecond)
	}
}

// advance moves the clock to target under the discipline described at the top.
func (w *c24World) advance(target time.Time) {
	step := func(t time.Time) bool {
		w.mu.Lock()
		held := len(w.gates)
		w.mu.Unlock()
		if held > 0 {
			w.setsHeld++
		}
		if !w.setClock(t) {
			return false
		}
		st := w.settle()
		if st == "" {
			return false
		}
		w.process(st == "parked" && held == 0 && w.heldNow() == 0)
		// The clock was just poked and the loop goroutine is parked again: whatever it armed its
		// timer for must lie in the future (also while executors are held: a due item for a busy
		// worker keeps the loop retrying, it does not park).
		if st == "parked" && !w.aborted && !w.violated {
			if wh, now := w.s.When(), w.mock.Now(); !wh.IsZero() && !wh.After(now) {
				w.r.Event("when_checks", 1)
				w.fail("when_in_past", "when", fmt.Sprintf("When()=%s is not after the clock %s although the loop goroutine went back to sleep (executors held: %d)", c24T(wh), c24T(now), w.heldNow()))
			}
		}
		return !w.aborted && !w.violated
	}
	if !step(w.mock.Now()) { // poke: fires a timer armed with Reset(0)
		return
	}
	for i := 0; i < 5000; i++ {
		wh := w.s.When()
		now := w.mock.Now()
		if wh.IsZero() || !wh.After(now) || wh.After(target) {
			break
		}
		w.logf("clock -> %s (reported When)", c24T(wh))
		if !step(wh) {
			return
		}
	}
	if w.mock.Now().Before(target) {
		w.logf("clock -> %s", c24T(target))
		step(target)
	}
}

func (w *c24World) heldNow() int {
	w.mu.Lock()
	defer w.mu.Unlock()
	return len(w.gates)
}

func (w *c24World) unholdAll() {
	w.mu.Lock()
	for id, g := range w.gates {
		close(g)
		delete(w.gates, id)
	}
	w.holdNext = map[scheduler.ID]bool{}
	w.mu.Unlock()
}

var c24Specs = []c24Spec{
	{"@every 1s", 0}, {"@every 1s", 500 * time.Millisecond}, {"@every 2s", -time.Second}, {"@every 5s", 3 * time.Second},
	{"@every 1m", 0}, {"@every 1m", -30 * time.Second}, {"*/3 * * * * *", 0}, {"*/10 * * * * *", 2 * time.Second},
	{"* * * * *", 0}, {"*/2 * * * *", 90 * time.Second}, {"0 * * * *", -10 * time.Minute}, {"@every 90s", 0},
	{"0 0 30 2 *", 0}, // never fires: Schedule must fail
}

func c24RunHistory(r *vkit.Run, no int) {
	rg := r.Rand(no)
	hk := &c24Hooks{}
	w := &c24World{r: r, no: no, hk: hk, active: map[scheduler.ID]int{}, holdNext: map[scheduler.ID]bool{}, gates: map[scheduler.ID]chan struct{}{},
		errNext: map[scheduler.ID]string{}, tasks: map[scheduler.ID]*c24Task{}, histWhens: map[int64]bool{}}
	hk.onDisp = func(id scheduler.ID, next time.Time) {
		w.mu.Lock()
		if len(w.disp) < 200000 {
			w.disp = append(w.disp, c24ExecEv{id: id, sf: next, stamp: w.stamp.Add(1)})
		}
		w.mu.Unlock()
	}
	c24Cur.Store(hk)
	defer c24Cur.Store(nil)
	w.mock = clock.NewMock()
	base := time.Date(2021, 6, 1, 0, 0, 0, 0, time.UTC).Add(time.Duration(rg.Intn(86400)) * time.Second)
	if rg.Chance(1, 3) {
		base = base.Add(time.Duration(rg.Intn(1e9)))
	}
	w.mock.Set(base)
	w.workers = vkit.Pick(rg, []int{1, 2, 2, 3, 4})
	s, _, err := scheduler.NewScheduler(&c24Exec{w}, w, scheduler.WithTime(w.mock), scheduler.WithMaxConcurrentWorkers(w.workers))
	if err != nil {
		r.Inconclusive("NewScheduler: " + err.Error())
		return
	}
	w.s = s
	w.logf("history %d: %d workers, clock %s", no, w.workers, base.UTC().Format(time.RFC3339Nano))
	nTasks := 1 + rg.Intn(6)
	idPool := []scheduler.ID{1, 2, 3, 4, 5, 6, 7, 9, 17, 33}
	nOps := 10 + rg.Intn(16)
	releases, schedules := 0, 0
	if w.settle() == "" {
		return
	}
	for op := 0; op < nOps && !w.aborted && !w.violated; op++ {
		x := rg.Intn(100)
		id := idPool[rg.Intn(nTasks)]
		t := w.tasks[id]
		switch {
		case x < 30 || (op < 2): // schedule (new task, or re-schedule an existing one)
			spec := vkit.Pick(rg, c24Specs)
			now := w.mock.Now()
			back := time.Duration(rg.Intn(4)) * time.Second
			if rg.Chance(1, 4) {
				back = time.Duration(rg.Intn(400)) * time.Second
			}
			sch, last, err := scheduler.NewSchedule(spec.Cron, now.Add(-back))
			if err != nil {
				r.Inconclusive("NewSchedule: " + err.Error())
				continue
			}
			parsed, _ := cron.ParseUTC(spec.Cron)
			first, perr := parsed.Next(last)
			// keep catch-up bursts bounded
			if perr == nil && spec.Cron == "@every 1s" && back > 60*time.Second {
				last = now.Add(-20 * time.Second).Truncate(time.Second)
				first, perr = parsed.Next(last)
			}
			w.stamp.Add(1)
			serr := s.Schedule(c24Sch{id: id, sch: sch, off: spec.Offset, last: last})
			w.stamp.Add(1)
			schedules++
			w.r.Event("schedule_calls", 1)
			w.logf("Schedule(task=%d %q offset=%v last=%s) -> %v", id, spec.Cron, spec.Offset, c24T(last), serr)
			if (perr != nil) != (serr != nil) {
				w.fail("schedule_error_mismatch", "schedule", fmt.Sprintf("cron %q: library Next error=%v, Schedule error=%v", spec.Cron, perr, serr))
				break
			}
			if serr == nil {
				if t == nil {
					t = &c24Task{id: id}
					w.tasks[id] = t
				} else {
					old := *t
					old.prev = nil
					t.prev = &old
				}
				t.spec, t.parsed, t.scheduled, t.next = spec, parsed, true, first
				t.inc++
				t.incStamp = w.stamp.Load()
				w.notePending()
			}
			if st := w.settle(); st != "" {
				w.process(false)
			}
		case x < 45: // release
			if t == nil {
				continue
			}
			w.stamp.Add(1)
			s.Release(id)
			w.stamp.Add(1)
			releases++
			w.r.Event("release_calls", 1)
			w.logf("Release(task=%d)", id)
			t.scheduled = false
			t.relStamp = w.stamp.Load()
			if st := w.settle(); st != "" {
				w.process(false)
			}
		case x < 57: // make the next run of this task block until unheld
			if t == nil || !t.scheduled {
				continue
			}
			w.mu.Lock()
			if _, held := w.gates[id]; !held {
				w.holdNext[id] = true
			}
			w.mu.Unlock()
			w.logf("hold next run of task=%d", id)
			w.r.Event("holds", 1)
		case x < 67: // unhold everything
			if w.heldNow() == 0 {
				continue
			}
			w.logf("unhold all")
			w.unholdAll()
			st := w.settle()
			if st == "" {
				break
			}
			w.process(false)
		case x < 72:
			if t != nil {
				mode := vkit.Pick(rg, []string{"error", "panic"})
				w.mu.Lock()
				w.errNext[id] = mode
				w.mu.Unlock()
				w.logf("next run of task=%d ends with %s", id, mode)
			}
		default: // advance
			var d time.Duration
			switch rg.Intn(5) {
			case 0:
				d = time.Duration(1+rg.Intn(900)) * time.Millisecond
			case 1, 2:
				d = time.Duration(1+rg.Intn(6)) * time.Second
			case 3:
				d = time.Duration(5+rg.Intn(60)) * time.Second
			default:
				d = time.Duration(1+rg.Intn(4)) * time.Minute
			}
			// bound the number of timer fires per history
			if w.hk.fires.Load() > 150 && d > 5*time.Second {
				d = time.Duration(1+rg.Intn(3)) * time.Second
			}
			w.advance(w.mock.Now().Add(d))
			w.r.Event("clock_advances", 1)
		}
		w.ops++
	}
	// tail: let everything finish, then many tiny clock moves with nothing due: a correct
	// scheduler's timer stays armed in the future, so the loop must not run at all
	if !w.aborted && !w.violated {
		w.logf("tail: unhold all, settle, 12 moves of 1ms")
		w.unholdAll()
		if st := w.settle(); st != "" {
			w.process(false)
			w.advance(w.mock.Now().Add(time.Millisecond))
		}
		if !w.aborted && !w.violated && w.heldNow() == 0 {
			// choose moves that do not reach the earliest pending run
			earliest := time.Time{}
			for _, t := range w.tasks {
				if t.scheduled {
					due := t.next.Add(t.spec.Offset)
					if earliest.IsZero() || due.Before(earliest) {
						earliest = due
					}
				}
			}
			f0 := w.hk.fires.Load()
			moves := 0
			for i := 0; i < 12 && !w.aborted && !w.violated; i++ {
				nt := w.mock.Now().Add(time.Millisecond)
				if !earliest.IsZero() && !nt.Before(earliest) {
					break
				}
				if !w.setClock(nt) {
					break
				}
				if w.settle() == "" {
					break
				}
				moves++
			}
			if !w.aborted && !w.violated {
				w.process(true)
				fires := w.hk.fires.Load() - f0
				w.r.Event("idle_tail_checks", 1)
				// one leftover wake-up per earlier Release/re-Schedule is by design; each further
				// one means the timer was armed in the past
				if fires > 2 {
					w.fail("busy_loop", "timer_fired_head_in_future", fmt.Sprintf("%d clock moves of 1 ms with nothing due (earliest pending %s, clock %s) made the scheduler timer fire %d times", moves, c24T(earliest), c24T(w.mock.Now()), fires))
				}
			}
		}
	}
	w.unholdAll()
	stopped := make(chan struct{})
	go func() { s.Stop(); close(stopped) }()
	select {
	case <-stopped:
	case <-time.After(c24Watchdog / 2):
		r.Inconclusive("Stop did not return within the watchdog; remaining histories skipped")
		c24Fatal.Store(true)
	}
	key := strings.Join(w.log, "\n")
	w.mu.Lock()
	nExecs := len(w.execs)
	w.mu.Unlock()
	nontrivial := nExecs >= 3 && len(w.tasks) >= 1 && schedules >= 2
	r.Case(key, nontrivial)
	r.Event("histories_releases", int64(releases))
	if r.WantSample() && no%23 == 0 {
		lg := w.log
		if len(lg) > 60 {
			lg = lg[:60]
		}
		r.Sample(map[string]any{"history": no, "workers": w.workers, "log": lg, "exec_calls": nExecs, "timer_fires": w.hk.fires.Load(), "loop_iterations": w.hk.iters.Load()})
	}
}

// ---- part B: real clock, release the soonest task between timer fire and queue inspection ---------------

func c24RealClockCase(r *vkit.Run, no int, variant string) {
	hk := &c24Hooks{}
	park := &c24Park{reached: make(chan struct{}, 1), release: make(chan struct{})}
	hk.parkTimer.Store(park)
	var execs atomic.Int64
	c24Cur.Store(hk)
	defer c24Cur.Store(nil)
	w := &c24World{r: r, no: no, hk: hk, active: map[scheduler.ID]int{}, holdNext: map[scheduler.ID]bool{}, gates: map[scheduler.ID]chan struct{}{},
		errNext: map[scheduler.ID]string{}, tasks: map[scheduler.ID]*c24Task{}, histWhens: map[int64]bool{}, mock: clock.NewMock(), workers: 2}
	hk.onDisp = func(scheduler.ID, time.Time) { execs.Add(1) }
	s, _, err := scheduler.NewScheduler(&c24Exec{w}, w, scheduler.WithMaxConcurrentWorkers(2))
	if err != nil {
		r.Inconclusive(err.Error())
		return
	}
	now := time.Now().UTC()
	// far tasks: due no earlier than two hours from now whatever the wall clock says
	far, lastFar, _ := scheduler.NewSchedule("@every 1h", now)
	soon, lastSoon, _ := scheduler.NewSchedule("@every 1s", now.Add(-10*time.Second))
	s.Schedule(c24Sch{id: 2, sch: far, off: 2 * time.Hour, last: lastFar})
	if variant == "three_tasks" {
		s.Schedule(c24Sch{id: 3, sch: far, off: 3 * time.Hour, last: lastFar})
	}
	s.Schedule(c24Sch{id: 1, sch: soon, off: 0, last: lastSoon}) // due already: timer armed with 0
	log := []string{"real clock, 2 workers", "Schedule(task=2 @every 1h offset 2h)", "Schedule(task=1 @every 1s, last scheduled 10 s ago) -> due now, timer fires"}
	select {
	case <-park.reached:
	case <-time.After(c24Watchdog):
		r.Inconclusive("timer hook never reached")
		close(park.release)
		s.Stop()
		return
	}
	log = append(log, "loop goroutine parked at scheduler.loop.timer (timer fired, queue not yet inspected)")
	switch variant {
	case "reschedule_later":
		later, lastLater, _ := scheduler.NewSchedule("@every 1h", now)
		s.Schedule(c24Sch{id: 1, sch: later, off: 90 * time.Minute, last: lastLater})
		log = append(log, "Schedule(task=1 @every 1h offset 90m): the soonest task moves into the future")
	default:
		s.Release(1)
		log = append(log, "Release(task=1): the soonest task is gone, head of the queue is >= 1.5 h away")
	}
	i0 := hk.iters.Load()
	close(park.release)
	log = append(log, "loop goroutine released")
	const limit = 20000
	verdict := ""
	deadline := time.Now().Add(c24Watchdog)
	for time.Now().Before(deadline) {
		it := hk.iters.Load() - i0
		if it >= limit {
			verdict = "spin"
			break
		}
		if d := c24TakeDump(); d.loopSeen && d.loopParked && d.transit == 0 {
			verdict = "parked"
			break
		}
		runtime.Gosched()
	}
	its := hk.iters.Load() - i0
	r.Event("real_clock_cases", 1)
	r.Case(fmt.Sprintf("realclock|%s|%d", variant, no), true)
	wh := s.When()
	switch verdict {
	case "":
		r.Inconclusive("real-clock case neither parked nor reached the iteration limit")
	case "spin":
		log = append(log, fmt.Sprintf("loop iterations after release: >= %d and still running; dispatches: %d; When()=%s", its, execs.Load(), wh.UTC().Format(time.RFC3339)))
		r.Violation("busy_loop", map[string]string{"trigger": "timer_fired_head_in_future", "clock": "real"},
			c24Wit{History: no, Workers: 2, Log: log, Problem: fmt.Sprintf("nothing is due for more than an hour, yet the scheduler loop ran %d iterations without parking (limit %d): it re-arms its timer with a negative duration", its, limit)})
	default:
		log = append(log, fmt.Sprintf("loop parked after %d iterations; When()=%s", its, wh.UTC().Format(time.RFC3339)))
		if its > 3 {
			r.Violation("busy_loop", map[string]string{"trigger": "timer_fired_head_in_future", "clock": "real", "shape": "bounded"},
				c24Wit{History: no, Workers: 2, Log: log, Problem: fmt.Sprintf("%d loop iterations for one timer fire with nothing due", its)})
		}
		if !wh.After(time.Now().Add(time.Hour)) {
			r.Violation("when_in_past", map[string]string{"trigger": "when", "clock": "real"},
				c24Wit{History: no, Workers: 2, Log: log, Problem: fmt.Sprintf("When()=%s although the earliest pending run is >= 1.5 h away", wh.UTC().Format(time.RFC3339))})
		}
	}
	// empty the queue so that the loop stops, then stop
	s.Release(1)
	s.Release(2)
	s.Release(3)
	stopped := make(chan struct{})
	go func() { s.Stop(); close(stopped) }()
	select {
	case <-stopped:
	case <-time.After(c24Watchdog):
		r.Inconclusive("Stop did not return within the watchdog (real clock)")
		c24Fatal.Store(true)
	}
	if r.WantSample() {
		r.Sample(map[string]any{"real_clock_case": variant, "log": log})
	}
}

func TestC24(t *testing.T) {
	r := vkit.Start(t, "C24", "exploration")
	defer r.Finish()
	c24InstallHooks()
	r.Rule("part A: history = 10-25 operations {Schedule (13 cron/@every specs with +/- offsets, last-scheduled 0-400 s back), Release, hold next run of a task, unhold, make next run fail/panic, advance the mock clock by 1 ms-4 min} on 1-6 tasks and 1-4 workers, followed by 12 idle 1 ms clock moves; after every action the harness waits for a settled scheduler (goroutine dump), then checks executor calls against the cron library's sequence (each due run once, in order, runAt, not before due, none after Release, no self-overlap, dispatch/exec counts), and at fully idle points completeness, When() and timer-fire counts. part B: 6 real-clock cases that park the loop goroutine between timer fire and queue inspection, release/re-schedule the soonest task and count loop iterations until the goroutine parks. non-trivial = >= 2 Schedule calls and >= 3 executor calls; distinct = the operation/event log")
	r.Trust("github.com/influxdata/cron Next", "github.com/benbjohnson/clock mock (driven under the discipline described in the source header)", "runtime.Stack goroutine states")
	r.Assume("a Release / re-Schedule may leave the timer armed for the old time: one wake-up with nothing to do and a stale but future When() are by design (documented in TreeScheduler's comment)")
	n := r.N(120, 1500)
	for i := 0; i < n && !c24Fatal.Load(); i++ {
		c24RunHistory(r, i)
	}
	r.Extra("first_witness_by_class", c24Examples)
	for i, v := range []string{"release_soonest", "reschedule_later", "three_tasks", "release_soonest", "reschedule_later", "three_tasks"} {
		if c24Fatal.Load() {
			break
		}
		c24RealClockCase(r, i, v)
	}
}
