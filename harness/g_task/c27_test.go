package g_task

// C27 — replication forwards every queued batch, in order, until the remote accepts it
// (fault enumeration over remote response sequences).
//
// Subject: the real replicationQueue.SendWrite + the real remotewrite writer + the real durable
// queue, wired by replications/internal.VerifNewQueue (verif shim) exactly as InitializeQueue
// does, minus the run() goroutine (SendWrite is called directly; returned retry delays are
// compared, never slept). The remote is an httptest server that answers from a script.
// Oracle (written from the property text):
//   R1 order      within one SendWrite the requests carry the queue head and then consecutive
//                 entries; over the run, first acceptances happen in enqueue order
//   R2 removal    an entry is out of the queue only if the remote answered 204 for it, or 400
//                 with DropNonRetryableData, or it was purged by max age
//   R3 backoff    the delay returned with a failure = Retry-After rule for 429, else
//                 0.5*2^(n-1) s for n earlier consecutive failures, 15 min beyond 10
//   R4 liveness   once the script is exhausted (remote accepts everything) the queue drains

import (
	"bytes"
	"compress/gzip"
	"context"
	"fmt"
	"io"
	"net"
	"net/http"
	"net/http/httptest"
	"os"
	"path/filepath"
	"strconv"
	"strings"
	"sync"
	"testing"
	"time"

	"github.com/influxdata/influxdb/v2"
	"github.com/influxdata/influxdb/v2/kit/platform"
	"github.com/influxdata/influxdb/v2/replications/verifshim"
	"go.uber.org/zap"

	"verifharness/vkit"
)

// ---- scripted remote ---------------------------------------------------------------------------

var c27Alphabet = []string{"204", "timeout", "429", "429ra2", "429ra0", "400", "401", "404", "413", "500", "503", "reset"}
var c27ExtAlphabet = append(append([]string(nil), c27Alphabet...), "429raX", "429ra7", "502", "204", "204")

type c27Req struct {
	ID   int    // payload id, -1 if unparsable
	Kind string // scripted answer
	Call int    // SendWrite call number
}

type c27Remote struct {
	srv    *httptest.Server
	mu     sync.Mutex
	script []string
	pos    int
	reqs   []c27Req
	call   int
}

func c27NewRemote() *c27Remote {
	rm := &c27Remote{}
	rm.srv = httptest.NewUnstartedServer(http.HandlerFunc(rm.handle))
	rm.srv.Config.SetKeepAlivesEnabled(false)
	rm.srv.Start()
	return rm
}

func (rm *c27Remote) reset(script []string) {
	rm.mu.Lock()
	rm.script, rm.pos, rm.reqs, rm.call = script, 0, nil, 0
	rm.mu.Unlock()
}

func (rm *c27Remote) peek() string {
	rm.mu.Lock()
	defer rm.mu.Unlock()
	if rm.pos < len(rm.script) {
		return rm.script[rm.pos]
	}
	return "204"
}

func (rm *c27Remote) exhausted() bool {
	rm.mu.Lock()
	defer rm.mu.Unlock()
	return rm.pos >= len(rm.script)
}

func c27PayloadID(b []byte) int {
	s := string(b)
	if !strings.HasPrefix(s, "P") {
		return -1
	}
	i := strings.IndexByte(s, '|')
	if i < 0 {
		return -1
	}
	n, err := strconv.Atoi(s[1:i])
	if err != nil {
		return -1
	}
	return n
}

func (rm *c27Remote) handle(w http.ResponseWriter, r *http.Request) {
	body, _ := io.ReadAll(r.Body)
	if len(body) > 2 && body[0] == 0x1f && body[1] == 0x8b { // the service enqueues gzip'd batches; the harness enqueues plain ones
		if zr, err := gzip.NewReader(bytes.NewReader(body)); err == nil {
			body, _ = io.ReadAll(zr)
		}
	}
	rm.mu.Lock()
	kind := "204"
	if rm.pos < len(rm.script) {
		kind = rm.script[rm.pos]
		rm.pos++
	}
	rm.reqs = append(rm.reqs, c27Req{ID: c27PayloadID(body), Kind: kind, Call: rm.call})
	rm.mu.Unlock()
	switch {
	case kind == "204":
		w.WriteHeader(http.StatusNoContent)
	case kind == "timeout":
		select { // hold the answer until the client gives up (its timeout is set short for this request)
		case <-r.Context().Done():
		case <-time.After(20 * time.Second):
		}
	case kind == "reset":
		if hj, ok := w.(http.Hijacker); ok {
			if c, _, err := hj.Hijack(); err == nil {
				if tc, ok := c.(*net.TCPConn); ok {
					tc.SetLinger(0)
				}
				c.Close()
			}
		}
	case strings.HasPrefix(kind, "429ra"):
		v := strings.TrimPrefix(kind, "429ra")
		if v == "X" {
			v = "soon"
		}
		w.Header().Set("Retry-After", v)
		w.WriteHeader(429)
	default:
		code, _ := strconv.Atoi(kind)
		w.Header().Set("Content-Type", "application/json")
		w.WriteHeader(code)
		fmt.Fprintf(w, `{"code":"invalid","message":"scripted %d"}`, code)
	}
}

// ---- config store (harness side of remotewrite.HttpConfigStore) ---------------------------------------

type c27Store struct {
	rm    *c27Remote
	q     *verifshim.Queue
	drop  bool
	codes []int // client-side view: status code handed to UpdateResponseInfo per attempt
}

func (s *c27Store) GetFullHTTPConfig(ctx context.Context, id platform.ID) (*influxdb.ReplicationHTTPConfig, error) {
	// the scripted answer to the request about to be sent decides the client timeout: short when
	// the remote is going to stay silent, generous otherwise (no false timeouts under load)
	if s.rm.peek() == "timeout" {
		s.q.SetClientTimeout(15 * time.Millisecond)
	} else {
		s.q.SetClientTimeout(30 * time.Second)
	}
	org := platform.ID(7)
	return &influxdb.ReplicationHTTPConfig{RemoteURL: s.rm.srv.URL, RemoteToken: "tok", RemoteOrgID: &org,
		RemoteBucketName: "b", DropNonRetryableData: s.drop}, nil
}

func (s *c27Store) UpdateResponseInfo(ctx context.Context, id platform.ID, code int, msg string) error {
	s.codes = append(s.codes, code)
	return nil
}

// ---- case ----------------------------------------------------------------------------------------

type c27Cfg struct {
	Name     string `json:"name"`
	Drop     bool   `json:"drop_non_retryable_data"`
	SegSize  int64  `json:"segment_size"`
	Pre      int    `json:"entries_enqueued_up_front"`
	Late     []int  `json:"entries_enqueued_after_call,omitempty"` // one entry after SendWrite call #n
	PurgeAt  int    `json:"purge_after_call,omitempty"`            // 0 = never
	AgeFirst bool   `json:"age_segments_before_purge,omitempty"`
}

var c27BaseCfgs = []c27Cfg{
	{Name: "keep400_one_segment", Drop: false, SegSize: 1 << 20, Pre: 3},
	{Name: "drop400_one_segment", Drop: true, SegSize: 1 << 20, Pre: 3},
	{Name: "keep400_tiny_segments_late_enqueue", Drop: false, SegSize: 48, Pre: 2, Late: []int{2}},
}

type c27Wit struct {
	Cfg     c27Cfg   `json:"cfg"`
	Script  []string `json:"script"`
	Log     []string `json:"event_log"`
	Problem string   `json:"problem"`
}

func c27Backoff(n int) time.Duration { // table written from the documented rule, not from the code
	if n > 10 {
		return 15 * time.Minute
	}
	d := 250 * time.Millisecond // n = 0
	for i := 0; i < n; i++ {
		d *= 2
	}
	return d
}

type c27Worker struct {
	r    *vkit.Run
	rm   *c27Remote
	base string
	n    int
}

func c27NewWorker(r *vkit.Run) (*c27Worker, error) {
	base, err := os.MkdirTemp(c26TmpBase, "c27-")
	if err != nil {
		return nil, err
	}
	return &c27Worker{r: r, rm: c27NewRemote(), base: base}, nil
}

func (w *c27Worker) close() {
	w.rm.srv.Close()
	os.RemoveAll(w.base)
}

func c27Payload(id int) []byte {
	return []byte(fmt.Sprintf("P%04d|m,t=%d v=%d %s", id, id, id, strings.Repeat("x", 3+id*5)))
}

// runCase drives one (cfg, script) through SendWrite calls and applies R1-R4.
// It returns the number of HTTP requests the remote saw.
func (w *c27Worker) runCase(cfg c27Cfg, script []string) int {
	r := w.r
	w.n++
	dir := filepath.Join(w.base, fmt.Sprintf("q%d", w.n))
	defer os.RemoveAll(dir)
	w.rm.reset(script)
	st := &c27Store{rm: w.rm, drop: cfg.Drop}
	q, err := verifshim.NewQueue(zap.NewNop(), dir, platform.ID(0x27), 1<<30, cfg.SegSize, 3600, st)
	if err != nil {
		r.Inconclusive("queue setup: " + err.Error())
		return 0
	}
	st.q = q
	defer q.Close()

	var log []string
	violated := false
	fail := func(class, rule, trigger, problem string) {
		if violated {
			return
		}
		violated = true
		r.Violation(class, map[string]string{"rule": rule, "trigger": trigger, "cfg": cfg.Name},
			c27Wit{Cfg: cfg, Script: script, Log: append([]string(nil), log...), Problem: problem})
	}

	var sizes []int64 // 8+len per enqueued entry, ids 1..n
	enqueue := func() {
		id := len(sizes) + 1
		p := c27Payload(id)
		if err := q.Enqueue(p, 1); err != nil {
			r.Inconclusive("enqueue: " + err.Error())
			return
		}
		sizes = append(sizes, int64(len(p))+8)
		log = append(log, fmt.Sprintf("enqueue P%d", id))
	}
	for i := 0; i < cfg.Pre; i++ {
		enqueue()
	}
	// pendingStart: smallest id still in the queue, derived from TotalBytes (the queue holds a suffix)
	pendingStart := func() (int, bool) {
		tb := q.Queue().TotalBytes()
		var sum int64
		for i := len(sizes); i >= 0; i-- {
			if sum == tb {
				return i + 1, true
			}
			if i > 0 {
				sum += sizes[i-1]
			}
		}
		return 0, false
	}
	resolved := map[int]string{} // id -> "204" | "400drop" | "maxage"
	firstAccept := []int{}
	failures := 0 // consecutive failed attempts as the client saw them
	seenReq, seenCode := 0, 0
	maxCalls := len(script) + len(sizes) + len(cfg.Late) + 8
	late := map[int]bool{}
	for _, c := range cfg.Late {
		late[c] = true
	}
	drained := false
	for call := 1; call <= maxCalls; call++ {
		w.rm.mu.Lock()
		w.rm.call = call
		w.rm.mu.Unlock()
		head, ok := pendingStart()
		if !ok {
			fail("queue_not_a_suffix", "R2", "before_call", "TotalBytes does not correspond to a suffix of the enqueued entries")
			break
		}
		wait, retry := q.SendWrite()
		// A client that gave up on a silent remote may return before the remote's handler has even
		// started; wait until the remote has seen as many requests as the client made attempts, so
		// that requests are attributed to the call that sent them (bounded: a request that never
		// left the client simply does not consume a script symbol).
		for spin := 0; spin < 4000; spin++ {
			w.rm.mu.Lock()
			n := len(w.rm.reqs)
			w.rm.mu.Unlock()
			if n-seenReq >= len(st.codes)-seenCode {
				break
			}
			time.Sleep(500 * time.Microsecond)
		}
		w.rm.mu.Lock()
		reqs := append([]c27Req(nil), w.rm.reqs[seenReq:]...)
		seenReq = len(w.rm.reqs)
		w.rm.mu.Unlock()
		codes := append([]int(nil), st.codes[seenCode:]...)
		seenCode = len(st.codes)
		r.Event("sendwrite_calls", 1)
		r.Event("requests_seen", int64(len(reqs)))
		log = append(log, fmt.Sprintf("SendWrite#%d -> wait=%v retry=%v requests=%v client_codes=%v", call, wait, retry, reqs, codes))

		// R1: ids head, head+1, ... ; a client-side timeout that never reached the remote shows up
		// as a code without a request, which is fine
		for i, rq := range reqs {
			if rq.ID != head+i {
				fail("request_out_of_order", "R1", "kind_"+rq.Kind, fmt.Sprintf("call %d request %d carries P%d, expected P%d (queue head P%d)", call, i, rq.ID, head+i, head))
			}
			r.Event("answer_"+rq.Kind, 1)
			switch {
			case rq.Kind == "204":
				if _, done := resolved[rq.ID]; !done {
					firstAccept = append(firstAccept, rq.ID)
				}
				resolved[rq.ID] = "204"
			case rq.Kind == "400" && cfg.Drop:
				if _, done := resolved[rq.ID]; !done {
					resolved[rq.ID] = "400drop"
				}
			}
		}
		// R3: the call ended on a failure iff the last client code is a failure
		lastFail, lastKind := false, ""
		for i, c := range codes {
			ok := c == 204 || (c == 400 && cfg.Drop)
			if ok {
				failures = 0
			} else if i < len(codes)-1 {
				fail("continued_after_failure", "R1", fmt.Sprintf("code_%d", c), fmt.Sprintf("call %d went on sending after a failed attempt (client codes %v)", call, codes))
			} else {
				lastFail = true
				// which scripted answer was that? the last request, if the attempt reached the remote
				if len(reqs) == len(codes) {
					lastKind = reqs[len(reqs)-1].Kind
				}
			}
		}
		if lastFail {
			want := c27Backoff(failures)
			switch lastKind {
			case "429ra2":
				want = 2 * time.Second
			case "429ra7":
				want = 7 * time.Second
			case "429ra0":
				want = 500 * time.Millisecond
			}
			r.Event("backoff_checks", 1)
			if !retry || wait != want {
				fail("wrong_retry_delay", "R3", "kind_"+lastKind, fmt.Sprintf("call %d failed (answer %q, %d earlier consecutive failures): returned wait=%v retry=%v, documented %v retry=true", call, lastKind, failures, wait, retry, want))
			}
			failures++
		} else if wait != 0 {
			fail("wrong_retry_delay", "R3", "success", fmt.Sprintf("call %d ended without failure but returned wait=%v", call, wait))
		}
		if fw := q.FailedWrites(); fw != failures {
			r.Event("failed_writes_counter_differs", 1)
		}
		// R2: nothing unresolved may have left the queue
		nh, ok := pendingStart()
		if !ok {
			fail("queue_not_a_suffix", "R2", "after_call", "TotalBytes does not correspond to a suffix of the enqueued entries")
			break
		}
		for id := 1; id < nh && id <= len(sizes); id++ {
			if _, done := resolved[id]; !done {
				trig := "unknown"
				for _, rq := range reqs {
					if rq.ID == id {
						trig = "kind_" + rq.Kind
					}
				}
				fail("removed_without_acceptance", "R2", trig, fmt.Sprintf("after call %d P%d is no longer in the queue but the remote never accepted it (answers: %v)", call, id, reqs))
				break
			}
		}
		r.Event("removal_checks", 1)
		// R4 (progress contract with run()): shouldRetry=false sends the loop to sleep until the
		// next enqueue, so it may only be returned when nothing is queued any more; entries are
		// enqueued between calls here, never during one
		if !retry && nh != len(sizes)+1 {
			fail("sleeps_with_backlog", "R4", "retry_false", fmt.Sprintf("call %d returned shouldRetry=false (run() then waits for the next enqueue) although P%d..P%d are still queued", call, nh, len(sizes)))
		}
		r.Event("retry_contract_checks", 1)
		if late[call] {
			enqueue()
		}
		if cfg.PurgeAt == call {
			if cfg.AgeFirst {
				old := time.Now().Add(-3 * time.Hour)
				des, _ := os.ReadDir(q.Queue().Dir())
				for _, de := range des {
					os.Chtimes(filepath.Join(q.Queue().Dir(), de.Name()), old, old)
				}
			}
			before, _ := pendingStart()
			if err := q.Purge(time.Now()); err != nil {
				fail("purge_error", "R2", "purge", err.Error())
			}
			after, _ := pendingStart()
			log = append(log, fmt.Sprintf("purge(aged=%v) head P%d -> P%d", cfg.AgeFirst, before, after))
			r.Event("purge_checks", 1)
			if cfg.AgeFirst {
				for id := before; id < after; id++ {
					resolved[id] = "maxage"
				}
				if after != len(sizes)+1 {
					fail("max_age_purge_incomplete", "R2", "purge_aged", fmt.Sprintf("segments aged 3h, max age %v: entries P%d.. are still queued", q.MaxAge(), after))
				}
			} else if after != before {
				fail("purged_before_max_age", "R2", "purge_fresh", fmt.Sprintf("max age %v, entries enqueued moments ago, yet the head moved P%d -> P%d", q.MaxAge(), before, after))
			}
		}
		future := cfg.PurgeAt > call
		for c := range late {
			if c > call {
				future = true
			}
		}
		if nh, _ := pendingStart(); !future && !retry && nh == len(sizes)+1 {
			drained = true
			break
		}
	}
	// R4 + order of first acceptances
	if !violated {
		if nh, _ := pendingStart(); !drained {
			fail("queue_not_drained", "R4", "end", fmt.Sprintf("the script is finite and the remote accepts everything after it, but after %d calls the queue head is P%d of %d", maxCalls, nh, len(sizes)))
		}
		for i := 1; i < len(firstAccept); i++ {
			if firstAccept[i] < firstAccept[i-1] {
				fail("accepted_out_of_order", "R1", "end", fmt.Sprintf("first acceptances in order %v", firstAccept))
			}
		}
		for id := 1; id <= len(sizes); id++ {
			if _, ok := resolved[id]; !ok {
				fail("never_accepted", "R4", "end", fmt.Sprintf("P%d was never accepted, dropped (400) or aged out", id))
			}
		}
	}
	if w.n%4001 == 1 && r.WantSample() {
		r.Sample(c27Wit{Cfg: cfg, Script: script, Log: log})
	}
	return seenReq
}

func c27Key(cfg c27Cfg, script []string) string {
	return fmt.Sprintf("%s|%v|%d|%v|%s", cfg.Name, cfg.Late, cfg.PurgeAt, cfg.AgeFirst, strings.Join(script, ","))
}

func c27Nontrivial(script []string) bool {
	for _, s := range script {
		if s != "204" {
			return true
		}
	}
	return false
}

type c27Job struct {
	cfg    c27Cfg
	script []string
}

func TestC27(t *testing.T) {
	r := vkit.Start(t, "C27", "fault_enumeration")
	defer r.Finish()
	r.Rule("case = (config, remote response script); exhaustive part: every script of length <= L (quick 2, thorough 4; plus, thorough, every script of length 5 over the 6-symbol core {204, timeout, 429+Retry-After:2, 400, 500, reset}; VERIF_C27_FULL=1: length <= 5 over all 12) over the 12-symbol alphabet {204, timeout, 429, 429+Retry-After:2, 429+Retry-After:0, 400, 401, 404, 413, 500, 503, connection reset} x 3 configs (400 kept / 400 dropped / tiny segments with a late enqueue), after the script the remote accepts everything; sampled part: scripts of length 1-9 over an extended alphabet with 1-5 entries, random late enqueues, max-age purges (fresh and aged) and two 14-failure runs for the 15 min cap; plus 2 runs of the real run() goroutine. SendWrite is called directly; each call is checked against R1 order, R2 removal-only-after-acceptance, R3 returned retry delay, and at the end R4 drain + acceptance order. non-trivial = script contains a non-204 answer; distinct = (config, script)")
	r.Trust("net/http + httptest as the remote; influx-cli api client (gzip body)", "client timeout is set per request from the scripted answer (15 ms for a silent remote, 30 s otherwise)")
	r.Assume("documented backoff: 0.5*2^(n-1) s for n earlier consecutive failures, 15 min when n > 10; 429 Retry-After: N>0 -> N s, \"0\" -> 0.5 s, unparsable -> backoff")

	// Every case costs ~8 real HTTP round trips through a client that builds a new transport and
	// TCP connection per request (~10 ms per case under the race detector). All 271 452 scripts of
	// length <= 5 x 3 configs would take hours; the thorough tier enumerates length <= 4 over the
	// full alphabet and length 5 over a 6-symbol core. VERIF_C27_FULL=1 runs the full length-5 set.
	maxLen := r.N(2, 4)
	core := []string{"204", "timeout", "429ra2", "400", "500", "reset"}
	fullFive := os.Getenv("VERIF_C27_FULL") == "1"
	if fullFive && !r.Quick() {
		maxLen = 5
	}
	jobs := make(chan c27Job, 256)
	var wg sync.WaitGroup
	var mu sync.Mutex
	totalReq := 0
	workers := 40
	for i := 0; i < workers; i++ {
		w, err := c27NewWorker(r)
		if err != nil {
			t.Fatal(err)
		}
		wg.Add(1)
		go func() {
			defer wg.Done()
			defer w.close()
			n := 0
			for j := range jobs {
				n += w.runCase(j.cfg, j.script)
				r.Case(c27Key(j.cfg, j.script), c27Nontrivial(j.script))
			}
			mu.Lock()
			totalReq += n
			mu.Unlock()
		}()
	}
	// exhaustive scripts
	nExh := 0
	var gen func(prefix []string)
	gen = func(prefix []string) {
		if len(prefix) > 0 {
			for _, cfg := range c27BaseCfgs {
				jobs <- c27Job{cfg, append([]string(nil), prefix...)}
				nExh++
			}
		}
		if len(prefix) == maxLen {
			return
		}
		for _, a := range c27Alphabet {
			gen(append(prefix, a))
		}
	}
	gen(nil)
	nCore5 := 0
	if !r.Quick() && !fullFive {
		var gen5 func(prefix []string)
		gen5 = func(prefix []string) {
			if len(prefix) == 5 {
				for _, cfg := range c27BaseCfgs {
					jobs <- c27Job{cfg, append([]string(nil), prefix...)}
					nCore5++
				}
				return
			}
			for _, a := range core {
				gen5(append(prefix, a))
			}
		}
		gen5(nil)
	}
	// sampled scripts
	n := r.N(300, 6000)
	for i := 0; i < n; i++ {
		rg := r.Rand(i)
		cfg := c27BaseCfgs[rg.Intn(len(c27BaseCfgs))]
		cfg.Name += "_sampled"
		cfg.Pre = 1 + rg.Intn(5)
		cfg.SegSize = int64(vkit.Pick(rg, []int{40, 64, 100, 1 << 20}))
		cfg.Drop = rg.Bool()
		cfg.Late = nil
		for k := rg.Intn(3); k > 0; k-- {
			cfg.Late = append(cfg.Late, 1+rg.Intn(6))
		}
		if rg.Chance(1, 4) {
			cfg.PurgeAt = 1 + rg.Intn(4)
			cfg.AgeFirst = rg.Bool()
		}
		ln := 1 + rg.Intn(9)
		script := make([]string, ln)
		for k := range script {
			script[k] = vkit.Pick(rg, c27ExtAlphabet)
		}
		jobs <- c27Job{cfg, script}
	}
	// long failure runs: reach the cap
	for _, kind := range []string{"500", "429"} {
		script := make([]string, 14)
		for k := range script {
			script[k] = kind
		}
		jobs <- c27Job{c27BaseCfgs[0], script}
	}
	close(jobs)
	wg.Wait()
	r.Exhaustive(true)
	r.Extra("exhaustive_script_len", maxLen)
	r.Extra("exhaustive_cases", nExh)
	r.Extra("exhaustive_len5_core_alphabet_cases", nCore5)
	r.Extra("len5_core_alphabet", core)
	r.Extra("http_requests", totalReq)

	c27RealLoop(r)
}

// c27RealLoop lets the real run() goroutine (timers, receive channel) deliver three entries
// through one failure; only order and removal are judged, the wall clock is a watchdog.
func c27RealLoop(r *vkit.Run) {
	for _, first := range []string{"500", "429ra0"} {
		w, err := c27NewWorker(r)
		if err != nil {
			r.Inconclusive(err.Error())
			return
		}
		script := []string{first}
		w.rm.reset(script)
		st := &c27Store{rm: w.rm}
		q, err := verifshim.NewQueue(zap.NewNop(), filepath.Join(w.base, "loop"), platform.ID(0x28), 1<<30, 1<<20, 0, st)
		if err != nil {
			r.Inconclusive(err.Error())
			w.close()
			return
		}
		st.q = q
		q.StartLoop()
		for id := 1; id <= 3; id++ {
			q.Enqueue(c27Payload(id), 1)
		}
		deadline := time.Now().Add(20 * time.Second)
		done := false
		for time.Now().Before(deadline) {
			if q.Queue().TotalBytes() == 0 {
				done = true
				break
			}
			time.Sleep(5 * time.Millisecond)
		}
		q.Close()
		w.rm.mu.Lock()
		reqs := append([]c27Req(nil), w.rm.reqs...)
		w.rm.mu.Unlock()
		r.Case("realloop|"+first, true)
		r.Event("real_loop_runs", 1)
		if !done {
			r.Inconclusive("real loop did not drain within the watchdog")
		} else {
			accepted := []int{}
			seen := map[int]bool{}
			for _, rq := range reqs {
				if rq.Kind == "204" && !seen[rq.ID] {
					seen[rq.ID] = true
					accepted = append(accepted, rq.ID)
				}
			}
			if fmt.Sprint(accepted) != "[1 2 3]" || len(reqs) == 0 || reqs[0].Kind != first || reqs[0].ID != 1 {
				r.Violation("real_loop_delivery", map[string]string{"rule": "R1", "trigger": "kind_" + first, "cfg": "real_loop"},
					map[string]any{"script": script, "requests": fmt.Sprint(reqs), "problem": "run() should deliver P1 (failed once), then P1 P2 P3 accepted in order"})
			}
		}
		w.close()
	}
}
