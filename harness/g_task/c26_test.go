package g_task

// C26 — durable queue: in order, at least once, across crashes (fault enumeration).
//
// Subject: the real pkg/durablequeue (Queue.Open/Append/Current/Advance/NewScanner/
// PurgeOlderThan/Close) on real files. Oracle: byte-string model (acked entries e1..em, acked
// advanced prefix a). Crash images: the queue directory as it is at every operation boundary and
// at the verifhook points around the single write() of segment.append / advanceTo / new-segment
// footer, expanded by every prefix truncation of that write (plus zero / 0xA5 fill of the newly
// extended region), each reopened with the real code and judged by the crash rule:
//   delivered = e_s..e_t contiguous, s <= a'+1 (a' = a, or the target of an in-flight advance),
//   t = m (or m+1 for an in-flight append), every element byte-identical to an appended entry,
//   and two entries appended after recovery are delivered after them.

import (
	"bytes"
	"encoding/binary"
	"errors"
	"fmt"
	"hash/crc32"
	"io"
	"os"
	"path/filepath"
	"sort"
	"strconv"
	"strings"
	"sync"
	"testing"
	"time"

	"github.com/influxdata/influxdb/v2/pkg/durablequeue"
	"github.com/influxdata/influxdb/v2/pkg/verifhook"

	"verifharness/vkit"
)

// ---- payloads ------------------------------------------------------------------------------

// entry = [u32 idx][u32 len][filler][u32 crc32(all before)]; idx makes every entry unique.
func c26Payload(idx uint32, size int, fill string, rg *vkit.Rand) []byte {
	if size < 12 {
		size = 12
	}
	b := make([]byte, size)
	binary.BigEndian.PutUint32(b[0:], idx)
	binary.BigEndian.PutUint32(b[4:], uint32(size))
	body := b[8 : size-4]
	switch fill {
	case "zero":
	case "ff":
		for i := range body {
			body[i] = 0xff
		}
	case "offsets": // big-endian u64 words holding small numbers: look like plausible footers
		for i := 0; i+8 <= len(body); i += 8 {
			binary.BigEndian.PutUint64(body[i:], uint64(rg.Intn(96)))
		}
	case "lens": // words that look like a block length followed by data
		for i := 0; i+8 <= len(body); i += 8 {
			binary.BigEndian.PutUint64(body[i:], uint64(8*rg.Intn(6)))
		}
	default:
		copy(body, rg.Bytes(len(body)))
	}
	binary.BigEndian.PutUint32(b[size-4:], crc32.ChecksumIEEE(b[:size-4]))
	return b
}

func c26Verify(b []byte) error {
	if len(b) < 12 {
		return fmt.Errorf("short entry (%d bytes)", len(b))
	}
	if int(binary.BigEndian.Uint32(b[4:])) != len(b) {
		return fmt.Errorf("length field mismatch")
	}
	if binary.BigEndian.Uint32(b[len(b)-4:]) != crc32.ChecksumIEEE(b[:len(b)-4]) {
		return fmt.Errorf("checksum mismatch")
	}
	return nil
}

var c26Fills = []string{"zero", "ff", "offsets", "lens", "random", "random"}

// ---- images --------------------------------------------------------------------------------

type c26Image map[string][]byte // segment file name -> content

func c26Snapshot(dir string) c26Image {
	img := c26Image{}
	des, _ := os.ReadDir(dir)
	for _, de := range des {
		if de.IsDir() {
			continue
		}
		if b, err := os.ReadFile(filepath.Join(dir, de.Name())); err == nil {
			img[de.Name()] = b
		}
	}
	return img
}

func (img c26Image) clone() c26Image {
	c := c26Image{}
	for k, v := range img {
		c[k] = v
	}
	return c
}

func (img c26Image) describe() map[string]string {
	out := map[string]string{}
	for k, v := range img {
		out[k] = fmt.Sprintf("%d bytes, tail=%x", len(v), v[c26max(0, len(v)-24):])
	}
	return out
}

func c26max(a, b int) int {
	if a > b {
		return a
	}
	return b
}

func (img c26Image) materialize(dir string) error {
	if err := os.MkdirAll(dir, 0o755); err != nil {
		return err
	}
	for k, v := range img {
		if err := os.WriteFile(filepath.Join(dir, k), v, 0o600); err != nil {
			return err
		}
	}
	return nil
}

var c26TmpBase = func() string {
	if st, err := os.Stat("/dev/shm"); err == nil && st.IsDir() {
		return "/dev/shm"
	}
	return ""
}()

// ---- hook capture ---------------------------------------------------------------------------

type c26Capture struct {
	point string
	path  string
	img   c26Image
}

var c26Hist sync.Map // live queue dir -> *c26History

var c26HookOnce sync.Once

func c26InstallHooks() {
	c26HookOnce.Do(func() {
		for _, p := range []string{"durablequeue.newsegment.beforeWrite", "durablequeue.newsegment.afterWrite",
			"durablequeue.append.beforeWrite", "durablequeue.append.afterWrite",
			"durablequeue.advance.beforeWrite", "durablequeue.advance.afterWrite"} {
			verifhook.Set(p, func(name string, arg interface{}) {
				path, _ := arg.(string)
				if h, ok := c26Hist.Load(filepath.Dir(path)); ok {
					hh := h.(*c26History)
					if hh.capturing {
						hh.caps = append(hh.caps, c26Capture{point: strings.TrimPrefix(name, "durablequeue."), path: filepath.Base(path), img: c26Snapshot(hh.dir)})
					}
				}
			})
		}
	})
}

// ---- history ---------------------------------------------------------------------------------

type c26Cfg struct {
	SegSize int64  `json:"max_segment_size"`
	MaxSize int64  `json:"max_queue_size"`
	Verify  string `json:"verify_block_fn"` // acceptall (what replications uses) | checksum
}

type c26Ctx struct { // what the crash rule needs to know about an image
	M          int    `json:"acked_appends"`
	A          int    `json:"acked_advanced"`
	Inflight   string `json:"inflight"`   // operation in flight: none | append | advance
	Write      string `json:"torn_write"` // which write() the image cuts: none | append | advance | newsegment
	AdvTarget  int    `json:"inflight_advance_target,omitempty"`
	OpNo       int    `json:"op_no"`
	Op         string `json:"op"`
	Point      string `json:"image_point"`
	K          int    `json:"torn_prefix_bytes"`
	WriteLen   int    `json:"write_len"`
	Variant    string `json:"variant"` // boundary | full | clean | zero | a5
	Cut        string `json:"cut"`
	Footer     string `json:"torn_footer"` // consistent | short_file | passes_range_check | fails_range_check
	File       string `json:"file,omitempty"`
	inflightEn []byte
}

type c26History struct {
	r         *vkit.Run
	no        int
	cfg       c26Cfg
	dir       string
	q         *durablequeue.Queue
	entries   [][]byte // acked, in order
	adv       int
	nextIdx   uint32
	ops       []string
	caps      []c26Capture
	capturing bool
	everyByte bool
	images    int
	viol      int
	scratch   string
	sampleImg []any
}

func (h *c26History) verifyFn() func([]byte) error {
	if h.cfg.Verify == "checksum" {
		return c26Verify
	}
	return func([]byte) error { return nil }
}

func (h *c26History) open(dir string, big bool) (*durablequeue.Queue, error) {
	max := h.cfg.MaxSize
	if big {
		max = 1 << 30
	}
	q, err := durablequeue.NewQueue(dir, max, h.cfg.SegSize, &durablequeue.SharedCount{}, durablequeue.MaxWritesPending, h.verifyFn())
	if err != nil {
		return nil, err
	}
	if err := q.Open(); err != nil {
		return nil, err
	}
	return q, nil
}

// ---- draining ----------------------------------------------------------------------------------

func c26DrainCurrent(q *durablequeue.Queue, limit int) (out [][]byte, err error) {
	for i := 0; i < limit; i++ {
		b, e := q.Current()
		if e == io.EOF {
			return out, nil
		}
		if e != nil {
			return out, e
		}
		out = append(out, append([]byte(nil), b...))
		if e := q.Advance(); e != nil {
			return out, e
		}
	}
	return out, fmt.Errorf("drain did not terminate after %d entries", limit)
}

// scanner drain the way the replication consumer does it: batch per head segment, Advance at
// the end of a batch, Advance also after a scan error (which drops the segment).
func c26DrainScanner(q *durablequeue.Queue, limit int) (out [][]byte, dropped []string, err error) {
	for round := 0; round < limit; round++ {
		sc, e := q.NewScanner()
		if e == io.EOF {
			return out, dropped, nil
		}
		if e != nil {
			return out, dropped, e
		}
		n := 0
		for sc.Next() {
			out = append(out, append([]byte(nil), sc.Bytes()...))
			n++
			if len(out) > limit {
				return out, dropped, fmt.Errorf("scanner drain did not terminate")
			}
		}
		if se := sc.Err(); se != nil {
			dropped = append(dropped, se.Error())
		}
		if _, e := sc.Advance(); e != nil && e != io.EOF {
			dropped = append(dropped, "advance: "+e.Error())
		}
		if n == 0 && sc.Err() == nil {
			// nothing readable and no error: either empty or stuck
			if _, e := q.Current(); e == io.EOF {
				return out, dropped, nil
			}
		}
	}
	return out, dropped, fmt.Errorf("scanner drain did not terminate after %d rounds", limit)
}

var (
	c26TallyMu sync.Mutex
	c26Tallies = map[string]int{}
)

var c26Examples = map[string]any{}

func c26Tally(k string, wit c26Wit) {
	c26TallyMu.Lock()
	c26Tallies[k]++
	if old, ok := c26Examples[k]; !ok || len(old.(c26Wit).Ops) > len(wit.Ops) {
		c26Examples[k] = wit // keep the shortest history per kind
	}
	c26TallyMu.Unlock()
}

// ---- crash rule -----------------------------------------------------------------------------------

type c26Wit struct {
	History   int               `json:"history"`
	Cfg       c26Cfg            `json:"cfg"`
	Ops       []string          `json:"ops_before_crash"`
	Ctx       c26Ctx            `json:"crash_point"`
	Style     string            `json:"consumer"`
	Files     map[string]string `json:"image_files"`
	Delivered []string          `json:"delivered"`
	Expected  string            `json:"expected"`
	Problem   string            `json:"problem"`
	Err       string            `json:"error,omitempty"`
}

func (h *c26History) name(b []byte, known map[string]int, fresh [][]byte) string {
	if i, ok := known[string(b)]; ok {
		return fmt.Sprintf("e%d", i)
	}
	for i, f := range fresh {
		if bytes.Equal(f, b) {
			return fmt.Sprintf("f%d", i+1)
		}
	}
	for s, i := range known {
		if len(b) > 0 && len(b) < len(s) && strings.HasPrefix(s, string(b)) {
			return fmt.Sprintf("FOREIGN(prefix of e%d, %d/%d bytes)", i, len(b), len(s))
		}
		if len(b) >= 4 && strings.Contains(s, string(b)) {
			return fmt.Sprintf("FOREIGN(%d bytes from inside e%d)", len(b), i)
		}
	}
	return fmt.Sprintf("FOREIGN(%d bytes %s)", len(b), vkit.Hex(b))
}

// judge applies the crash rule to what one consumer got out of the reopened image.
// delivered must be: run of old entries e_s..e_t (rule above) followed by the fresh entries.
func (h *c26History) judge(ctx c26Ctx, style string, img c26Image, delivered [][]byte, fresh [][]byte, derr error, openErr error) {
	r := h.r
	known := map[string]int{}
	for i, e := range h.entries[:ctx.M] {
		known[string(e)] = i + 1
	}
	maxT := ctx.M
	if ctx.Inflight == "append" && ctx.inflightEn != nil {
		known[string(ctx.inflightEn)] = ctx.M + 1
		maxT = ctx.M + 1
	}
	aMax := ctx.A
	if ctx.Inflight == "advance" {
		aMax = ctx.AdvTarget
	}
	names := make([]string, len(delivered))
	for i, d := range delivered {
		names[i] = h.name(d, known, fresh)
	}
	report := func(class, problem string) {
		h.viol++
		e := ""
		if derr != nil {
			e = derr.Error()
		}
		if openErr != nil {
			e = "open: " + openErr.Error()
		}
		r.Event("crash_rule_"+class, 1)
		wit := c26Wit{History: h.no, Cfg: h.cfg, Ops: append([]string(nil), h.ops...), Ctx: ctx, Style: style, Files: img.describe(), Delivered: names,
			Expected: fmt.Sprintf("e_s..e_t with s<=%d, t in [%d,%d], then f1 f2", aMax+1, ctx.M, maxT), Problem: problem, Err: e}
		c26Tally(class+" write="+ctx.Write+" torn_footer="+ctx.Footer+" cut="+ctx.Cut+" variant="+ctx.Variant, wit)
		r.Violation(class, map[string]string{"write": ctx.Write, "torn_footer": ctx.Footer, "cut": ctx.Cut, "variant": ctx.Variant}, wit)
	}
	if openErr != nil {
		if ctx.M-aMax > 0 {
			report("reopen_failed", fmt.Sprintf("Queue.Open fails on the crash image; e%d..e%d were acknowledged, not advanced past, and cannot be delivered", aMax+1, ctx.M))
		} else {
			r.Event("reopen_failed_without_pending_entries", 1)
		}
		return
	}
	// Fill variants (zero / 0xA5 in the region the torn write extended the file by) model garbage
	// that a queue without checksums cannot recognise (repair() documents that). For them only
	// the acknowledged entries are judged: they must come first, intact and in order; whatever the
	// garbage region yields afterwards is counted, not judged.
	tolerant := false
	if ctx.Variant == "zero" || ctx.Variant == "a5" {
		for i, n := range names {
			if strings.HasPrefix(n, "FOREIGN") {
				names, delivered, fresh = names[:i], delivered[:i], nil
				tolerant = true
				derr = nil
				r.Event("fill_variant_garbage_not_judged", 1)
				break
			}
		}
		if !tolerant && derr != nil {
			// stuck on the garbage region after delivering only entries: same treatment
			tolerant, fresh = true, nil
			for len(names) > 0 && strings.HasPrefix(names[len(names)-1], "f") {
				names, delivered = names[:len(names)-1], delivered[:len(delivered)-1]
			}
			r.Event("fill_variant_stuck_not_judged", 1)
		}
	}
	// split off fresh suffix
	nOld := len(delivered)
	freshSeen := 0
	for nOld > 0 && freshSeen < len(fresh) && strings.HasPrefix(names[nOld-1], "f") {
		nOld--
		freshSeen++
	}
	old := names[:nOld]
	idx := make([]int, 0, len(old))
	for i, n := range old {
		if !strings.HasPrefix(n, "e") {
			if strings.HasPrefix(n, "f") {
				report("order_violation", fmt.Sprintf("fresh entry %s delivered before old entries ended (position %d)", n, i))
			} else {
				report("foreign_bytes_delivered", fmt.Sprintf("position %d: %s was never appended as an entry", i, n))
			}
			return
		}
		v, _ := strconv.Atoi(n[1:])
		idx = append(idx, v)
	}
	for i := 1; i < len(idx); i++ {
		if idx[i] != idx[i-1]+1 {
			report("order_violation", fmt.Sprintf("e%d delivered right after e%d", idx[i], idx[i-1]))
			return
		}
	}
	pendingAcked := ctx.M - aMax // entries that must show up whatever happened to the in-flight op
	if len(idx) == 0 {
		if pendingAcked > 0 {
			report("acked_entry_lost", fmt.Sprintf("nothing delivered although e%d..e%d were acknowledged and not advanced past", aMax+1, ctx.M))
			return
		}
	} else {
		if idx[0] > aMax+1 {
			report("acked_entry_lost", fmt.Sprintf("delivery starts at e%d; e%d..e%d were acknowledged, not advanced past, and are skipped", idx[0], aMax+1, idx[0]-1))
			return
		}
		if last := idx[len(idx)-1]; last < ctx.M && !(tolerant && false) {
			report("acked_entry_lost", fmt.Sprintf("delivery ends at e%d; e%d..e%d were acknowledged and are missing", last, last+1, ctx.M))
			return
		}
	}
	// fresh entries appended after recovery
	want := make([]string, len(fresh))
	for i := range fresh {
		want[i] = fmt.Sprintf("f%d", i+1)
	}
	if got := names[nOld:]; !tolerant && strings.Join(got, ",") != strings.Join(want, ",") {
		report("post_recovery_entry_lost", fmt.Sprintf("entries appended (and acknowledged) after recovery: want %v delivered after the old ones, got %v", want, got))
		return
	}
	if derr != nil {
		r.Event("drain_error_after_complete_delivery", 1)
	}
}

// checkImage reopens one image with the real code under two consumers.
func (h *c26History) checkImage(ctx c26Ctx, img c26Image) {
	h.images++
	h.r.Event("crash_images", 1)
	h.r.Event("images_"+ctx.Variant, 1)
	if len(h.sampleImg) < 2 && ctx.Variant == "clean" && ctx.K > 8 {
		h.sampleImg = append(h.sampleImg, map[string]any{"crash_point": ctx, "files": img.describe()})
	}
	limit := ctx.M + 8
	rg := vkit.NewRand(uint64(h.no)*1000003 + uint64(h.images))
	fresh := [][]byte{c26Payload(0xF0000000+uint32(h.images)*2, 12+rg.Intn(20), "random", rg), c26Payload(0xF0000001+uint32(h.images)*2, 12+rg.Intn(20), "random", rg)}

	// consumer 1: Current/Advance drain, then two fresh appends, then drain again
	{
		dir := filepath.Join(h.scratch, fmt.Sprintf("i%dc", h.images))
		img.materialize(dir)
		q, err := h.open(dir, true)
		if err != nil {
			h.judge(ctx, "current", img, nil, fresh, nil, err)
		} else {
			d1, derr := c26DrainCurrent(q, limit)
			var d2 [][]byte
			var aerr error
			for _, f := range fresh {
				if e := q.Append(f); e != nil {
					aerr = e
				}
			}
			if aerr == nil {
				var e2 error
				d2, e2 = c26DrainCurrent(q, limit)
				if derr == nil {
					derr = e2
				}
			} else {
				derr = fmt.Errorf("append after recovery failed: %v (drain error: %v)", aerr, derr)
			}
			h.judge(ctx, "current", img, append(d1, d2...), fresh, derr, nil)
			q.Close()
		}
		os.RemoveAll(dir)
	}
	// consumer 2: fresh appends first, clean restart, then scanner drain (replication style)
	{
		dir := filepath.Join(h.scratch, fmt.Sprintf("i%ds", h.images))
		img.materialize(dir)
		q, err := h.open(dir, true)
		if err != nil {
			h.judge(ctx, "scanner", img, nil, fresh, nil, err)
		} else {
			var aerr error
			for _, f := range fresh {
				if e := q.Append(f); e != nil {
					aerr = e
				}
			}
			q.Close()
			q, err = h.open(dir, true)
			if err != nil {
				h.judge(ctx, "scanner", img, nil, fresh, nil, fmt.Errorf("second open: %w", err))
			} else {
				d, dropped, derr := c26DrainScanner(q, limit+4)
				if aerr != nil {
					derr = fmt.Errorf("append after recovery failed: %v", aerr)
				} else if len(dropped) > 0 {
					h.r.Event("scanner_dropped_segment", int64(len(dropped)))
					if derr == nil {
						derr = errors.New("scanner dropped: " + strings.Join(dropped, "; "))
					}
				}
				h.judge(ctx, "scanner", img, d, fresh, derr, nil)
				q.Close()
			}
		}
		os.RemoveAll(dir)
	}
}

// c26Footer classifies the last 8 bytes of a torn file the way segment.open() looks at them:
// the only test the code applies is pos <= size-8.
func c26Footer(t, p, q []byte) string {
	switch {
	case bytes.Equal(t, p) || bytes.Equal(t, q):
		return "consistent"
	case len(t) < 8:
		return "short_file"
	case binary.BigEndian.Uint64(t[len(t)-8:]) <= uint64(len(t)-8):
		return "passes_range_check"
	}
	return "fails_range_check"
}

func c26Cut(kind string, k, n, bodyLen int) string {
	switch {
	case k == 0:
		return "none"
	case k == n:
		return "complete"
	}
	switch kind {
	case "append":
		switch {
		case k < 8:
			return "old_footer_partly_overwritten_by_len"
		case k == 8:
			return "len_field_complete_no_body"
		case k < 8+bodyLen:
			return "body_partial"
		case k == 8+bodyLen:
			return "body_complete_no_footer"
		default:
			return "new_footer_partial"
		}
	case "advance":
		return "footer_partial"
	default:
		return "first_footer_partial"
	}
}

// expand produces the torn variants between a beforeWrite and an afterWrite capture.
func (h *c26History) expand(ctx c26Ctx, kind string, before, after c26Capture) {
	p, q := before.img[before.path], after.img[after.path]
	off := len(p) - 8
	if kind == "newsegment" {
		off = 0
		p = nil
	}
	if off < 0 || len(q) < off {
		h.r.Inconclusive("unexpected image geometry")
		return
	}
	n := len(q) - off
	bodyLen := n - 16
	ks := map[int]bool{}
	if h.everyByte || n <= 72 {
		for k := 1; k < n; k++ {
			ks[k] = true
		}
	} else {
		for k := 1; k <= 28; k++ {
			ks[k] = true
		}
		for k := n - 20; k < n; k++ {
			ks[k] = true
		}
		for k := 29; k < n-20; k += 7 {
			ks[k] = true
		}
	}
	keys := make([]int, 0, len(ks))
	for k := range ks {
		keys = append(keys, k)
	}
	sort.Ints(keys)
	for _, k := range keys {
		c := ctx
		c.K, c.WriteLen, c.File, c.Point = k, n, after.path, kind+".write"
		c.Cut = c26Cut(kind, k, n, bodyLen)
		// clean cut
		t := append([]byte(nil), q[:off+k]...)
		if off+k < len(p) {
			t = append(t, p[off+k:]...)
		}
		img := before.img.clone()
		img[after.path] = t
		c.Variant = "clean"
		c.Footer = c26Footer(t, p, q)
		h.checkImage(c, img)
		// fill variants: only the region the write newly extends the file by can hold fill
		if len(q) > len(t) {
			for _, fv := range []struct {
				name string
				b    byte
			}{{"zero", 0}, {"a5", 0xa5}} {
				f := append([]byte(nil), t...)
				for len(f) < len(q) {
					f = append(f, fv.b)
				}
				img := before.img.clone()
				img[after.path] = f
				c.Variant = fv.name
				c.Footer = c26Footer(f, p, q)
				h.checkImage(c, img)
			}
		}
	}
}

// afterOp turns the captures of one operation into images. ctx describes the operation in
// flight (its effect may be present or absent in any image taken during it).
func (h *c26History) afterOp(ctx c26Ctx, pre c26Image) {
	caps := h.caps
	h.caps = nil
	// boundary image before the op: nothing in flight
	b := ctx
	b.Inflight, b.Write, b.Variant, b.Cut, b.Point, b.inflightEn, b.Footer = "none", "none", "boundary", "none", "op_boundary", nil, "consistent"
	h.checkImage(b, pre)
	for i := 0; i+1 < len(caps); i++ {
		if !strings.HasSuffix(caps[i].point, ".beforeWrite") || !strings.HasSuffix(caps[i+1].point, ".afterWrite") {
			continue
		}
		kind := strings.TrimSuffix(caps[i].point, ".beforeWrite")
		if kind != strings.TrimSuffix(caps[i+1].point, ".afterWrite") || caps[i].path != caps[i+1].path {
			continue
		}
		c := ctx
		c.Write, c.Footer = kind, "consistent"
		c.Variant, c.Cut, c.Point = "full", "none", kind+".beforeWrite"
		h.checkImage(c, caps[i].img)
		c.Variant, c.Cut, c.Point = "full", "complete", kind+".afterWrite"
		h.checkImage(c, caps[i+1].img)
		h.expand(c, kind, caps[i], caps[i+1])
	}
}

// ---- live checks -----------------------------------------------------------------------------------

func (h *c26History) liveFail(class, problem string, extra map[string]string) {
	f := map[string]string{"phase": "live"}
	for k, v := range extra {
		f[k] = v
	}
	h.viol++
	h.r.Event("live_rule_"+class, 1)
	c26TallyMu.Lock()
	c26Tallies[class+" phase=live"]++
	c26TallyMu.Unlock()
	h.r.Violation(class, f, map[string]any{"history": h.no, "cfg": h.cfg, "ops": append([]string(nil), h.ops...), "problem": problem})
}

func (h *c26History) pendingBytes() int64 {
	var n int64
	for _, e := range h.entries[h.adv:] {
		n += int64(len(e)) + 8
	}
	return n
}

func (h *c26History) liveHead() {
	b, err := h.q.Current()
	h.r.Event("live_head_checks", 1)
	if h.adv == len(h.entries) {
		if err != io.EOF {
			h.liveFail("live_head_mismatch", fmt.Sprintf("queue should be empty, Current returned %d bytes err=%v", len(b), err), nil)
		}
	} else if err != nil || !bytes.Equal(b, h.entries[h.adv]) {
		h.liveFail("live_head_mismatch", fmt.Sprintf("Current should return e%d, got %d bytes err=%v", h.adv+1, len(b), err), nil)
	}
	if tb := h.q.TotalBytes(); tb != h.pendingBytes() {
		h.liveFail("total_bytes_mismatch", fmt.Sprintf("TotalBytes=%d, pending entries need %d", tb, h.pendingBytes()), nil)
	}
}

func (h *c26History) run(rg *vkit.Rand, nOps int) {
	c26InstallHooks()
	base, err := os.MkdirTemp(c26TmpBase, "c26-")
	if err != nil {
		h.r.Inconclusive("tempdir: " + err.Error())
		return
	}
	defer os.RemoveAll(base)
	h.dir = filepath.Join(base, "live")
	h.scratch = filepath.Join(base, "img")
	os.MkdirAll(h.dir, 0o755)
	c26Hist.Store(h.dir, h)
	defer c26Hist.Delete(h.dir)

	h.capturing = true
	pre := c26Snapshot(h.dir)
	q, err := h.open(h.dir, false)
	if err != nil {
		h.r.Inconclusive("open: " + err.Error())
		return
	}
	h.q = q
	h.ops = append(h.ops, "open")
	h.afterOp(c26Ctx{Inflight: "none", Write: "none", OpNo: 0, Op: "open"}, pre)
	h.nextIdx = uint32(h.no+1)*4096 + 1

	// long lineage: one history in five first rolls the queue through many segments (appends
	// of about one segment each, consumed as it goes, no crash images), so that the segment ids
	// alive in the rest of the history straddle a change in the number of decimal digits
	// (9/10, sometimes 99/100) and reopening has to put them back into numeric order
	if rg.Chance(1, 5) {
		rolls := 6 + rg.Intn(8)
		if rg.Chance(1, 6) {
			rolls = 94 + rg.Intn(10)
		}
		h.capturing = false
		for i := 0; i < rolls; i++ {
			e := c26Payload(h.nextIdx, int(h.cfg.SegSize)-8-rg.Intn(8), vkit.Pick(rg, c26Fills), rg)
			h.nextIdx++
			for h.pendingBytes()+int64(len(e))+8 > h.cfg.MaxSize-h.cfg.SegSize && h.adv < len(h.entries) {
				h.liveHead()
				if err := h.q.Advance(); err != nil {
					h.liveFail("advance_error", err.Error(), nil)
				}
				h.adv++
			}
			if err := h.q.Append(e); err != nil {
				break
			}
			h.entries = append(h.entries, e)
		}
		h.caps = nil
		h.capturing = true
		h.ops = append(h.ops, fmt.Sprintf("preroll(%d segment-sized appends, %d consumed)", rolls, h.adv))
		h.r.Event("long_lineage_histories", 1)
		h.liveHead()
	}

	for opNo := 1; opNo <= nOps; opNo++ {
		pre := c26Snapshot(h.dir)
		ctx := c26Ctx{M: len(h.entries), A: h.adv, OpNo: opNo}
		x := rg.Intn(100)
		switch {
		case x < 55: // append
			size := 12 + rg.Intn(40)
			if rg.Chance(1, 8) {
				size = 250 + rg.Intn(80) // length field with a non-zero second byte
			}
			if rg.Chance(1, 10) {
				size = int(h.cfg.SegSize) + rg.Intn(16) // larger than a segment
			}
			e := c26Payload(h.nextIdx, size, vkit.Pick(rg, c26Fills), rg)
			h.nextIdx++
			ctx.Inflight, ctx.Op, ctx.inflightEn = "append", fmt.Sprintf("append(%dB)", len(e)), e
			pos0, _ := h.q.Position()
			tb0 := h.q.TotalBytes()
			err := h.q.Append(e)
			if err != nil {
				h.ops = append(h.ops, ctx.Op+"=ERR:"+err.Error())
				h.r.Event("append_rejected", 1)
				pos1, _ := h.q.Position()
				// a rejected append must leave the queue unchanged; a new (empty) tail segment may
				// have been added before the rejection is decided? No: ErrQueueFull is decided first.
				if errors.Is(err, durablequeue.ErrQueueFull) {
					if *pos0 != *pos1 || tb0 != h.q.TotalBytes() {
						h.liveFail("rejected_append_changed_queue", fmt.Sprintf("position %v -> %v, total bytes %d -> %d", *pos0, *pos1, tb0, h.q.TotalBytes()), nil)
					}
				}
				h.caps = nil
				// the rejected entry must never be delivered: it is simply not part of the model
			} else {
				h.ops = append(h.ops, ctx.Op)
				h.r.Event("appends_acked", 1)
				h.afterOp(ctx, pre)
				h.entries = append(h.entries, e)
			}
		case x < 72: // advance one (Current + Advance)
			if h.adv == len(h.entries) {
				h.liveHead()
				continue
			}
			ctx.Inflight, ctx.AdvTarget, ctx.Op = "advance", h.adv+1, "advance"
			h.liveHead()
			if err := h.q.Advance(); err != nil {
				h.liveFail("advance_error", err.Error(), nil)
			}
			h.ops = append(h.ops, ctx.Op)
			h.r.Event("advances_acked", 1)
			h.afterOp(ctx, pre)
			h.adv++
		case x < 84: // scanner batch advance
			want := 1 + rg.Intn(4)
			sc, err := h.q.NewScanner()
			if err == io.EOF {
				if h.adv != len(h.entries) {
					h.liveFail("live_head_mismatch", "NewScanner says EOF although entries are pending", nil)
				}
				continue
			}
			if err != nil {
				h.liveFail("scanner_error", err.Error(), nil)
				continue
			}
			got := 0
			for got < want && sc.Next() {
				if h.adv+got >= len(h.entries) {
					h.liveFail("live_scan_mismatch", fmt.Sprintf("scanner yields %d bytes after the last acknowledged entry e%d", len(sc.Bytes()), len(h.entries)), nil)
					break
				}
				if !bytes.Equal(sc.Bytes(), h.entries[h.adv+got]) {
					h.liveFail("live_scan_mismatch", fmt.Sprintf("scanner item %d is not e%d", got, h.adv+got+1), nil)
				}
				got++
			}
			ctx.Inflight, ctx.AdvTarget, ctx.Op = "advance", h.adv+got, fmt.Sprintf("scan(%d)+advance", got)
			if got == 0 {
				ctx.Inflight = "none"
			}
			if _, err := sc.Advance(); err != nil && err != io.EOF {
				h.liveFail("scanner_advance_error", err.Error(), nil)
			}
			h.ops = append(h.ops, ctx.Op)
			h.r.Event("scanner_advances_acked", 1)
			h.afterOp(ctx, pre)
			h.adv += got
		case x < 94: // clean reopen
			ctx.Inflight, ctx.Op = "none", "close+open"
			h.q.Close()
			q, err := h.open(h.dir, false)
			if err != nil {
				h.liveFail("clean_reopen_failed", err.Error(), nil)
				return
			}
			h.q = q
			h.ops = append(h.ops, ctx.Op)
			h.r.Event("clean_reopens", 1)
			h.afterOp(ctx, pre)
		default: // purge: nothing is old enough -> no-op; or age every segment -> everything dropped
			if rg.Bool() {
				ctx.Op = "purge(older than 1h: nothing)"
				if err := h.q.PurgeOlderThan(time.Now().Add(-time.Hour)); err != nil {
					h.liveFail("purge_error", err.Error(), nil)
				}
				h.caps = nil
			} else {
				ctx.Op = "age all segments 3h, purge(older than 1h)"
				old := time.Now().Add(-3 * time.Hour)
				des, _ := os.ReadDir(h.dir)
				for _, de := range des {
					os.Chtimes(filepath.Join(h.dir, de.Name()), old, old)
				}
				if err := h.q.PurgeOlderThan(time.Now().Add(-time.Hour)); err != nil {
					h.liveFail("purge_error", err.Error(), nil)
				}
				h.caps = nil
				h.adv = len(h.entries) // purged by age: dropped on purpose
			}
			h.ops = append(h.ops, ctx.Op)
			h.r.Event("purges", 1)
		}
		h.liveHead()
		if h.viol > 5000 {
			break // enough witnesses from this history
		}
	}
	// final boundary image
	h.afterOp(c26Ctx{M: len(h.entries), A: h.adv, Inflight: "none", Write: "none", OpNo: nOps + 1, Op: "end"}, c26Snapshot(h.dir))
	h.q.Close()
}

func TestC26(t *testing.T) {
	r := vkit.Start(t, "C26", "fault_enumeration")
	defer r.Finish()
	r.Rule("case = one append/advance/scanner-advance/clean-reopen/purge history (8-14 ops) on a real queue with tiny segments (64-640 B; entries 12-330 B with index+crc32 and hostile fillers: zeros, small big-endian words); crash images = directory at every op boundary and around the single write() of segment.append / advanceTo / new-segment footer (verifhook), expanded by every prefix truncation of that write (quick: every byte for writes <= 72 B, head/tail/stride otherwise; thorough: every byte) as clean cut, zero fill and 0xA5 fill of the newly extended region; every image is reopened twice with the real code (Current/Advance consumer; append+restart+Scanner consumer) and judged by the crash rule. non-trivial = history produced >= 20 images with >= 2 acked entries pending at some crash point; distinct = (config, op list)")
	r.Trust("crash model: process death + torn last write (prefix, optionally zero/0xA5 fill of the extended region); no reordering of earlier synced writes", "crc32/bytes.Equal for byte identity")
	r.Assume("a torn write() leaves a prefix of the written bytes; bytes of the file that the write did not reach keep their old content")
	n := r.N(100, 1500)
	every := !r.Quick()

	type job struct{ no int }
	jobs := make(chan job)
	var wg sync.WaitGroup
	var mu sync.Mutex
	totalImages := 0
	workers := 12
	for w := 0; w < workers; w++ {
		wg.Add(1)
		go func() {
			defer wg.Done()
			for j := range jobs {
				rg := r.Rand(j.no)
				seg := int64(vkit.Pick(rg, []int{64, 96, 128, 200, 320, 640}))
				cfg := c26Cfg{SegSize: seg, MaxSize: seg * int64(2+rg.Intn(4)), Verify: vkit.Pick(rg, []string{"acceptall", "acceptall", "checksum"})}
				h := &c26History{r: r, no: j.no, cfg: cfg, everyByte: every}
				h.run(rg, 8+rg.Intn(7))
				r.Case(fmt.Sprintf("%+v|%s", cfg, strings.Join(h.ops, ";")), h.images >= 20 && len(h.entries) >= 2)
				mu.Lock()
				totalImages += h.images
				mu.Unlock()
				if r.WantSample() && j.no%17 == 0 {
					r.Sample(map[string]any{"history": j.no, "cfg": cfg, "ops": h.ops, "images": h.images, "example_images": h.sampleImg})
				}
			}
		}()
	}
	for i := 0; i < n; i++ {
		jobs <- job{i}
	}
	close(jobs)
	wg.Wait()
	for i := 0; i < r.N(2, 30); i++ {
		c26Strace(r, i, r.SubRand("strace", i).Uint64())
	}
	r.Extra("crash_images", totalImages)
	r.Extra("violation_matrix", c26Tallies)
	r.Extra("violation_examples", c26Examples)
	r.Extra("every_byte", every)
}
