package g_task

// C25 — only active tasks are scheduled.
//
// Subject: the real middleware.CoordinatingTaskService + the real coordinator.Coordinator
// (+ backend.NotifyCoordinatorOfExisting). Environment supplied by the harness: an in-memory
// TaskService (the kv task service needs the Flux parser) and a recording scheduler that is a
// plain map id -> last Schedulable handed to Schedule, minus Release(id).
// Oracle: after every operation the recording scheduler's map must equal
// {existing task with status active -> its latest (cron|every, offset)} computed by a slot
// model that never looks at the coordinator.

import (
	"context"
	"fmt"
	"sort"
	"strings"
	"sync"
	"testing"
	"time"

	"github.com/influxdata/cron"
	"github.com/influxdata/influxdb/v2/kit/platform"
	"github.com/influxdata/influxdb/v2/task/backend"
	"github.com/influxdata/influxdb/v2/task/backend/coordinator"
	"github.com/influxdata/influxdb/v2/task/backend/middleware"
	"github.com/influxdata/influxdb/v2/task/backend/scheduler"
	"github.com/influxdata/influxdb/v2/task/options"
	"github.com/influxdata/influxdb/v2/task/taskmodel"
	"go.uber.org/zap"

	"verifharness/vkit"
)

// ---- schedules ---------------------------------------------------------------------------

type c25Spec struct {
	Every  string        `json:"every,omitempty"`
	Cron   string        `json:"cron,omitempty"`
	Offset time.Duration `json:"offset"`
}

func (s c25Spec) effCron() string {
	if s.Cron != "" {
		return s.Cron
	}
	return "@every " + s.Every
}

var c25Pool = []c25Spec{
	{Every: "10s"},
	{Cron: "*/5 * * * *", Offset: 7 * time.Second},
	{Every: "1h", Offset: -30 * time.Second},
	{Cron: "0 3 * * 1"},
	{Every: "90s", Offset: time.Minute},
}

var c25ProbeTimes = []time.Time{
	time.Date(2021, 3, 4, 5, 6, 7, 0, time.UTC),
	time.Date(2022, 12, 31, 23, 59, 59, 0, time.UTC),
	time.Date(2024, 2, 29, 2, 59, 30, 0, time.UTC),
}

// fingerprint of a schedule: the next three activations after fixed probe instants, computed
// with the cron library (trusted) — two schedules with equal fingerprints are treated as equal.
func c25Finger(next func(time.Time) (time.Time, error), off time.Duration) string {
	var sb strings.Builder
	for _, p := range c25ProbeTimes {
		t := p
		for k := 0; k < 3; k++ {
			n, err := next(t)
			if err != nil {
				sb.WriteString("err;")
				break
			}
			fmt.Fprintf(&sb, "%d;", n.Unix())
			t = n
		}
	}
	fmt.Fprintf(&sb, "off=%d", int64(off))
	return sb.String()
}

func c25SpecFinger(s c25Spec) string {
	p, err := cron.ParseUTC(s.effCron())
	if err != nil {
		return "unparsable:" + s.effCron()
	}
	return c25Finger(p.Next, s.Offset)
}

// ---- in-memory TaskService ----------------------------------------------------------------

type c25Svc struct {
	taskmodel.TaskService // unimplemented methods panic (never reached by the operations used)
	tasks                 map[platform.ID]*taskmodel.Task
	nextID                platform.ID
	pageSize              int
}

func c25NewSvc() *c25Svc {
	return &c25Svc{tasks: map[platform.ID]*taskmodel.Task{}, nextID: 1, pageSize: 2}
}

func (s *c25Svc) clone() *c25Svc {
	c := &c25Svc{tasks: make(map[platform.ID]*taskmodel.Task, len(s.tasks)), nextID: s.nextID, pageSize: s.pageSize}
	for k, v := range s.tasks {
		t := *v
		c.tasks[k] = &t
	}
	return c
}

var c25Created = time.Date(2021, 1, 1, 0, 0, 0, 0, time.UTC)

// the schedule travels inside the "Flux" text, as in the real service; this fake reads a
// trivial k=v format instead of parsing Flux.
func c25Flux(sp c25Spec) string {
	return fmt.Sprintf("every=%s;cron=%s;offset=%d", sp.Every, sp.Cron, int64(sp.Offset))
}

func (s *c25Svc) CreateTask(ctx context.Context, tc taskmodel.TaskCreate) (*taskmodel.Task, error) {
	t := &taskmodel.Task{ID: s.nextID, OrganizationID: 1, OwnerID: 1, Flux: tc.Flux, Status: tc.Status,
		CreatedAt: c25Created, LatestCompleted: c25Created}
	s.nextID++
	if t.Status == "" {
		t.Status = string(taskmodel.DefaultTaskStatus)
	}
	for _, kv := range strings.Split(tc.Flux, ";") {
		k, v, _ := strings.Cut(kv, "=")
		switch k {
		case "every":
			t.Every = v
		case "cron":
			t.Cron = v
		case "offset":
			var n int64
			fmt.Sscan(v, &n)
			t.Offset = time.Duration(n)
		}
	}
	t.Name = fmt.Sprintf("task-%d", t.ID)
	s.tasks[t.ID] = t
	c := *t
	return &c, nil
}

func (s *c25Svc) FindTaskByID(ctx context.Context, id platform.ID) (*taskmodel.Task, error) {
	t, ok := s.tasks[id]
	if !ok {
		return nil, taskmodel.ErrTaskNotFound
	}
	c := *t
	return &c, nil
}

func c25DurString(d options.Duration) string {
	var sb strings.Builder
	for _, v := range d.Node.Values {
		fmt.Fprintf(&sb, "%d%s", v.Magnitude, v.Unit)
	}
	return sb.String()
}

func (s *c25Svc) UpdateTask(ctx context.Context, id platform.ID, upd taskmodel.TaskUpdate) (*taskmodel.Task, error) {
	t, ok := s.tasks[id]
	if !ok {
		return nil, taskmodel.ErrTaskNotFound
	}
	if upd.Status != nil {
		t.Status = *upd.Status
	}
	if upd.Options.Cron != "" {
		t.Cron, t.Every = upd.Options.Cron, ""
	}
	if !upd.Options.Every.IsZero() {
		t.Every, t.Cron = c25DurString(upd.Options.Every), ""
	}
	if upd.Options.Offset != nil {
		d, err := upd.Options.Offset.DurationFrom(c25Created)
		if err != nil {
			return nil, err
		}
		t.Offset = d
	}
	if upd.LatestCompleted != nil {
		t.LatestCompleted = *upd.LatestCompleted
	}
	if upd.LatestScheduled != nil {
		t.LatestScheduled = *upd.LatestScheduled
	}
	c := *t
	return &c, nil
}

func (s *c25Svc) DeleteTask(ctx context.Context, id platform.ID) error {
	if _, ok := s.tasks[id]; !ok {
		return taskmodel.ErrTaskNotFound
	}
	delete(s.tasks, id)
	return nil
}

func (s *c25Svc) FindTasks(ctx context.Context, f taskmodel.TaskFilter) ([]*taskmodel.Task, int, error) {
	ids := make([]platform.ID, 0, len(s.tasks))
	for id := range s.tasks {
		if f.After != nil && id <= *f.After {
			continue
		}
		ids = append(ids, id)
	}
	sort.Slice(ids, func(i, j int) bool { return ids[i] < ids[j] })
	lim := f.Limit
	if lim <= 0 {
		lim = s.pageSize
	}
	if len(ids) > lim {
		ids = ids[:lim]
	}
	out := make([]*taskmodel.Task, 0, len(ids))
	for _, id := range ids {
		c := *s.tasks[id]
		out = append(out, &c)
	}
	return out, len(out), nil
}

// ---- recording scheduler -------------------------------------------------------------------

type c25Sched struct {
	set       map[scheduler.ID]string // id -> fingerprint of the last Schedulable
	schedules int64
	releases  int64
}

func (s *c25Sched) Schedule(t scheduler.Schedulable) error {
	sch := t.Schedule()
	s.set[t.ID()] = c25Finger(sch.Next, t.Offset())
	s.schedules++
	return nil
}

func (s *c25Sched) Release(id scheduler.ID) error {
	delete(s.set, id)
	s.releases++
	return nil
}

func (s *c25Sched) clone() *c25Sched {
	c := &c25Sched{set: make(map[scheduler.ID]string, len(s.set)), schedules: s.schedules, releases: s.releases}
	for k, v := range s.set {
		c.set[k] = v
	}
	return c
}

// ---- model ---------------------------------------------------------------------------------

type c25Slot struct {
	Exists bool
	ID     uint64
	Active bool
	Ver    int // schedule version: spec = pool[(slot+ver) % len]
}

type c25Model struct {
	slots  [3]c25Slot
	nextID platform.ID
}

func c25SpecOf(slot, ver int) c25Spec { return c25Pool[(slot*2+ver)%len(c25Pool)] }

func (m *c25Model) expected() map[scheduler.ID]string {
	out := map[scheduler.ID]string{}
	for i, s := range m.slots {
		if s.Exists && s.Active {
			out[scheduler.ID(s.ID)] = c25SpecFinger(c25SpecOf(i, s.Ver))
		}
	}
	return out
}

// ---- operations ----------------------------------------------------------------------------

type c25Op struct {
	Slot int
	Kind string // cA cI sA sI sc sAsc sIsc del
}

func (o c25Op) String() string { return fmt.Sprintf("%d%s", o.Slot, o.Kind) }

var c25CoreKindsAbsent = []string{"cA", "cI"}
var c25CoreKindsPresent = []string{"sA", "sI", "sc", "del"}
var c25ExtKindsAbsent = []string{"cA", "cI", "cDflt", "sA", "del"} // sA/del on a missing task: error paths
var c25ExtKindsPresent = []string{"sA", "sI", "sc", "del", "sAsc", "sIsc", "noop"}

type c25World struct {
	svc   *c25Svc
	sch   *c25Sched
	cts   *middleware.CoordinatingTaskService
	model c25Model
	// ids the model assigned to deleted/never-created slots, for ops on missing tasks
}

func c25NewWorld() *c25World {
	w := &c25World{svc: c25NewSvc(), sch: &c25Sched{set: map[scheduler.ID]string{}}}
	w.model.nextID = 1
	w.wire()
	return w
}

func (w *c25World) wire() {
	co := coordinator.NewCoordinator(zap.NewNop(), w.sch, nil)
	w.cts = middleware.New(w.svc, co)
}

func (w *c25World) clone() *c25World {
	c := &c25World{svc: w.svc.clone(), sch: w.sch.clone(), model: w.model}
	c.wire()
	return c
}

func c25Upd(status string, sp *c25Spec) taskmodel.TaskUpdate {
	var u taskmodel.TaskUpdate
	if status != "" {
		u.Status = &status
	}
	if sp != nil {
		if sp.Cron != "" {
			u.Options.Cron = sp.Cron
		} else {
			u.Options.Every = *options.MustParseDuration(sp.Every)
		}
		off := &options.Duration{}
		neg := sp.Offset < 0
		d := sp.Offset
		if neg {
			d = -d
		}
		txt := fmt.Sprintf("%ds", int64(d/time.Second))
		if neg {
			txt = "-" + txt
		}
		if err := off.Parse(txt); err != nil {
			panic(err)
		}
		u.Options.Offset = off
	}
	return u
}

// apply runs one operation against the real coordinating service and against the model.
// The returned error text is for witnesses only.
func (w *c25World) apply(op c25Op) string {
	ctx := context.Background()
	sl := &w.model.slots[op.Slot]
	errText := func(err error) string {
		if err == nil {
			return ""
		}
		return err.Error()
	}
	switch op.Kind {
	case "cA", "cI", "cDflt":
		status := map[string]string{"cA": taskmodel.TaskStatusActive, "cI": taskmodel.TaskStatusInactive, "cDflt": ""}[op.Kind]
		sp := c25SpecOf(op.Slot, 0)
		t, err := w.cts.CreateTask(ctx, taskmodel.TaskCreate{Flux: c25Flux(sp), Status: status, OrganizationID: 1, OwnerID: 1})
		if err != nil {
			return "create: " + err.Error()
		}
		*sl = c25Slot{Exists: true, ID: uint64(t.ID), Active: op.Kind != "cI", Ver: 0}
		w.model.nextID = t.ID + 1
		return ""
	case "sA", "sI", "sc", "sAsc", "sIsc", "noop":
		id := platform.ID(sl.ID)
		if !sl.Exists {
			id = 9000 + platform.ID(op.Slot) // never assigned
		}
		var sp *c25Spec
		status := ""
		newVer := sl.Ver
		if strings.HasSuffix(op.Kind, "sc") {
			newVer++
			s := c25SpecOf(op.Slot, newVer)
			sp = &s
		}
		if strings.HasPrefix(op.Kind, "sA") {
			status = taskmodel.TaskStatusActive
		} else if strings.HasPrefix(op.Kind, "sI") {
			status = taskmodel.TaskStatusInactive
		}
		var u taskmodel.TaskUpdate
		if op.Kind == "noop" {
			d := "described"
			u.Description = &d
		} else {
			u = c25Upd(status, sp)
		}
		_, err := w.cts.UpdateTask(ctx, id, u)
		if sl.Exists {
			// the fake service applies every update; the coordinator's error (if any) is reported
			sl.Ver = newVer
			if status != "" {
				sl.Active = status == taskmodel.TaskStatusActive
			}
		}
		return errText(err)
	case "del":
		id := platform.ID(sl.ID)
		if !sl.Exists {
			id = 9000 + platform.ID(op.Slot)
		}
		err := w.cts.DeleteTask(ctx, id)
		if sl.Exists {
			*sl = c25Slot{}
		}
		return errText(err)
	}
	panic("unknown op " + op.Kind)
}

// ---- oracle --------------------------------------------------------------------------------

type c25Diff struct {
	Kind string `json:"kind"` // inactive_task_scheduled | active_task_not_scheduled | missing_task_scheduled | stale_schedule
	ID   uint64 `json:"task_id"`
	Want string `json:"want,omitempty"`
	Got  string `json:"got,omitempty"`
}

func (w *c25World) diff(got map[scheduler.ID]string) map[string]c25Diff {
	out := map[string]c25Diff{}
	want := w.model.expected()
	status := map[scheduler.ID]string{}
	for _, s := range w.model.slots {
		if s.Exists {
			if s.Active {
				status[scheduler.ID(s.ID)] = "active"
			} else {
				status[scheduler.ID(s.ID)] = "inactive"
			}
		}
	}
	for id, g := range got {
		wv, ok := want[id]
		switch {
		case !ok && status[id] == "inactive":
			out[fmt.Sprintf("inactive_task_scheduled/%d", id)] = c25Diff{Kind: "inactive_task_scheduled", ID: uint64(id), Got: g}
		case !ok:
			out[fmt.Sprintf("missing_task_scheduled/%d", id)] = c25Diff{Kind: "missing_task_scheduled", ID: uint64(id), Got: g}
		case wv != g:
			out[fmt.Sprintf("stale_schedule/%d", id)] = c25Diff{Kind: "stale_schedule", ID: uint64(id), Want: wv, Got: g}
		}
	}
	for id, wv := range want {
		if _, ok := got[id]; !ok {
			out[fmt.Sprintf("active_task_not_scheduled/%d", id)] = c25Diff{Kind: "active_task_not_scheduled", ID: uint64(id), Want: wv}
		}
	}
	return out
}

type c25Wit struct {
	Ops       []string          `json:"ops"`
	LastOp    string            `json:"introduced_by_op"`
	OpError   string            `json:"op_error,omitempty"`
	Diff      c25Diff           `json:"diff"`
	Model     [3]c25Slot        `json:"model_slots_after"`
	Scheduled map[string]string `json:"scheduler_set_after"`
	Path      string            `json:"path"`
}

func c25Strs(ops []c25Op) []string {
	out := make([]string, len(ops))
	for i, o := range ops {
		out[i] = o.String()
	}
	return out
}

func c25SetJSON(m map[scheduler.ID]string) map[string]string {
	out := map[string]string{}
	for k, v := range m {
		out[fmt.Sprint(uint64(k))] = v
	}
	return out
}

var c25TriggerName = map[string]string{"cA": "create_active", "cI": "create_inactive", "cDflt": "create_default_status",
	"sA": "update_status_active", "sI": "update_status_inactive", "sc": "update_schedule", "sAsc": "update_status_active_and_schedule",
	"sIsc": "update_status_inactive_and_schedule", "del": "delete", "noop": "update_description"}

// step applies op, compares, and reports discrepancies that this op introduced (carried-over
// ones were reported when they appeared). prev is the discrepancy set before the op.
func c25Step(r *vkit.Run, w *c25World, ops []c25Op, prev map[string]c25Diff) map[string]c25Diff {
	op := ops[len(ops)-1]
	errText := w.apply(op)
	cur := w.diff(w.sch.set)
	r.Event("op_"+c25TriggerName[op.Kind], 1)
	r.Event("set_comparisons", 1)
	keys := make([]string, 0, len(cur))
	for k := range cur {
		keys = append(keys, k)
	}
	sort.Strings(keys)
	for _, k := range keys {
		if _, carried := prev[k]; carried {
			continue
		}
		d := cur[k]
		r.Event("diverged_"+d.Kind+"_after_"+c25TriggerName[op.Kind], 1)
		r.Violation(d.Kind, map[string]string{"trigger": c25TriggerName[op.Kind], "path": "CoordinatingTaskService"},
			c25Wit{Ops: c25Strs(ops), LastOp: op.String(), OpError: errText, Diff: d, Model: w.model.slots,
				Scheduled: c25SetJSON(w.sch.set), Path: "CoordinatingTaskService"})
	}
	return cur
}

// notifyCheck runs backend.NotifyCoordinatorOfExisting against a copy of the world's task
// store with a fresh scheduler: exactly the active tasks must end up scheduled.
func c25NotifyCheck(r *vkit.Run, w *c25World, ops []c25Op) {
	c := w.clone()
	c.sch = &c25Sched{set: map[scheduler.ID]string{}}
	co := coordinator.NewCoordinator(zap.NewNop(), c.sch, nil)
	if err := backend.NotifyCoordinatorOfExisting(context.Background(), zap.NewNop(), c.svc, co); err != nil {
		r.Violation("notify_existing_error", map[string]string{"path": "NotifyCoordinatorOfExisting"}, map[string]any{"ops": c25Strs(ops), "err": err.Error()})
		return
	}
	r.Event("notify_existing_checks", 1)
	d := c.diff(c.sch.set)
	keys := make([]string, 0, len(d))
	for k := range d {
		keys = append(keys, k)
	}
	sort.Strings(keys)
	for _, k := range keys {
		r.Event("diverged_"+d[k].Kind+"_after_startup_notify", 1)
		r.Violation(d[k].Kind, map[string]string{"trigger": "startup_notify", "path": "NotifyCoordinatorOfExisting"},
			c25Wit{Ops: c25Strs(ops), LastOp: "NotifyCoordinatorOfExisting", Diff: d[k], Model: c.model.slots,
				Scheduled: c25SetJSON(c.sch.set), Path: "NotifyCoordinatorOfExisting"})
	}
}

func c25Nontrivial(ops []c25Op) bool {
	created := [3]bool{}
	for _, o := range ops {
		if o.Kind[0] == 'c' {
			created[o.Slot] = true
		} else if created[o.Slot] {
			return true
		}
	}
	return false
}

func c25Key(ops []c25Op) string { return strings.Join(c25Strs(ops), " ") }

// dfs enumerates every sequence of applicable core operations up to maxDepth. The world is
// cloned per child (service map + scheduler map + model), so each prefix is executed once.
func c25DFS(r *vkit.Run, w *c25World, ops []c25Op, prev map[string]c25Diff, maxDepth int, count *int64, mu *sync.Mutex) {
	if len(ops) > 0 {
		r.Case(c25Key(ops), c25Nontrivial(ops))
		mu.Lock()
		*count++
		mu.Unlock()
		if len(ops) == maxDepth || len(ops) == 3 {
			c25NotifyCheck(r, w, ops)
		}
	}
	if len(ops) == maxDepth {
		return
	}
	for slot := 0; slot < 3; slot++ {
		kinds := c25CoreKindsAbsent
		if w.model.slots[slot].Exists {
			kinds = c25CoreKindsPresent
		}
		for _, k := range kinds {
			c := w.clone()
			next := append(append([]c25Op(nil), ops...), c25Op{slot, k})
			cur := c25Step(r, c, next, prev)
			c25DFS(r, c, next, cur, maxDepth, count, mu)
		}
	}
}

func TestC25(t *testing.T) {
	r := vkit.Start(t, "C25", "exploration")
	defer r.Finish()
	r.Rule("part 1 (exhaustive): every sequence of applicable operations {create active, create inactive} on an absent slot / {set active, set inactive, change schedule(+offset), delete} on a present slot, over 3 task slots, up to the tier's length (quick 5, thorough 6), each prefix executed once through the real CoordinatingTaskService+Coordinator; part 2 (sampled): random sequences of length ≤ 10 over the extended alphabet (default-status create, combined status+schedule updates, description-only update, update/delete of missing tasks), each followed by NotifyCoordinatorOfExisting on a fresh scheduler. After every operation the recording scheduler's {id -> schedule fingerprint} is compared with the model's {active task -> latest schedule}. non-trivial = some slot is operated on after its creation; distinct = the operation sequence")
	r.Trust("github.com/influxdata/cron Next (schedule fingerprints)", "in-memory TaskService fake and recording scheduler written by the harness")
	r.Assume("a scheduler is a map: Schedule(id) replaces, Release(id) removes (what TreeScheduler implements)")

	depth := r.N(5, 6)
	var count int64
	var mu sync.Mutex
	// first-level subtrees in parallel, each with its own world
	var wg sync.WaitGroup
	root := c25NewWorld()
	for slot := 0; slot < 3; slot++ {
		for _, k := range c25CoreKindsAbsent {
			wg.Add(1)
			go func(slot int, k string) {
				defer wg.Done()
				c := root.clone()
				ops := []c25Op{{slot, k}}
				cur := c25Step(r, c, ops, map[string]c25Diff{})
				c25DFS(r, c, ops, cur, depth, &count, &mu)
			}(slot, k)
		}
	}
	wg.Wait()
	r.Exhaustive(true)
	r.Extra("exhaustive_depth", depth)
	r.Extra("exhaustive_sequences", count)

	// sampled part with the extended alphabet
	n := r.N(3000, 60000)
	for i := 0; i < n; i++ {
		rg := r.Rand(i)
		w := c25NewWorld()
		ln := rg.Range(2, 10)
		var ops []c25Op
		prev := map[string]c25Diff{}
		for j := 0; j < ln; j++ {
			slot := rg.Intn(3)
			kinds := c25ExtKindsAbsent
			if w.model.slots[slot].Exists {
				kinds = c25ExtKindsPresent
			}
			ops = append(ops, c25Op{slot, vkit.Pick(rg, kinds)})
			prev = c25Step(r, w, ops, prev)
		}
		r.Case("ext:"+c25Key(ops), c25Nontrivial(ops))
		c25NotifyCheck(r, w, ops)
		if i%(n/5+1) == 0 && r.WantSample() {
			r.Sample(map[string]any{"ops": c25Strs(ops), "model_after": w.model.slots, "scheduler_set_after": c25SetJSON(w.sch.set)})
		}
	}
}
