package g_task

import (
	"encoding/json"
	"fmt"
	"os"
	"os/exec"
	"path/filepath"
	"strings"
	"testing"
	"time"

	"github.com/influxdata/influxdb/v2/pkg/durablequeue"

	"verifharness/vkit"
	"verifharness/vkit/strace"
)

// C26, syscall durability monitor (DESIGN §4 M4): crash images cannot show a missing fsync, so a
// scripted append/advance history runs in a child under `strace -f -y`; every successful
// Append/Advance is marked, and the trace must show that no queue segment file written by the
// operation is un-fsynced when the operation is acknowledged (rule D1).

func TestMain(m *testing.M) {
	vkit.ChildMain(m, map[string]vkit.ChildHandler{"c26strace": c26StraceChild})
}

type c26StraceIn struct {
	Dir  string `json:"dir"`
	Ack  string `json:"ack"`
	Seed uint64 `json:"seed"`
}

func c26StraceChild(payload []byte) ([]byte, error) {
	var in c26StraceIn
	if err := json.Unmarshal(payload, &in); err != nil {
		return nil, err
	}
	ack, err := os.OpenFile(in.Ack, os.O_CREATE|os.O_WRONLY|os.O_APPEND, 0o644)
	if err != nil {
		return nil, err
	}
	defer ack.Close()
	rg := vkit.NewRand(in.Seed)
	q, err := durablequeue.NewQueue(in.Dir, 4096, 256, &durablequeue.SharedCount{}, durablequeue.MaxWritesPending, func([]byte) error { return nil })
	if err != nil {
		return nil, err
	}
	if err := os.MkdirAll(in.Dir, 0o755); err != nil {
		return nil, err
	}
	if err := q.Open(); err != nil {
		return nil, err
	}
	var hist []string
	n, pending := 0, 0
	mark := func(kind string) {
		n++
		fmt.Fprintf(ack, "ACK %d %s\n", n, kind)
	}
	for i := 0; i < 40; i++ {
		if pending > 0 && rg.Chance(2, 5) {
			if err := q.Advance(); err != nil {
				return nil, fmt.Errorf("advance: %w", err)
			}
			pending--
			hist = append(hist, "advance")
			mark("advance")
			continue
		}
		b := []byte(fmt.Sprintf("entry-%03d-%s", i, strings.Repeat("x", rg.Intn(60))))
		if err := q.Append(b); err != nil {
			hist = append(hist, "append-rejected")
			continue
		}
		pending++
		hist = append(hist, fmt.Sprintf("append(%d)", len(b)))
		mark("append")
	}
	q.Close()
	return json.Marshal(hist)
}

func c26Strace(r *vkit.Run, caseNo int, seed uint64) {
	if _, err := exec.LookPath("strace"); err != nil {
		r.Inconclusive("strace not installed")
		return
	}
	root, err := os.MkdirTemp("", "c26s")
	if err != nil {
		r.T.Fatal(err)
	}
	defer os.RemoveAll(root)
	in := c26StraceIn{Dir: filepath.Join(root, "queue"), Ack: filepath.Join(root, "ackmarker"), Seed: seed}
	payload, _ := json.Marshal(in)
	inF, outF, logF := filepath.Join(root, "in"), filepath.Join(root, "out"), filepath.Join(root, "strace.log")
	os.WriteFile(inF, payload, 0o644)
	cmd := exec.Command("strace", "-f", "-y", "-s", "40", "-o", logF,
		"-e", "trace=openat,write,pwrite64,writev,fsync,fdatasync,rename,renameat,renameat2,unlink,unlinkat", os.Args[0])
	cmd.Env = append(os.Environ(), "VERIF_CHILD=c26strace", "VERIF_CHILD_IN="+inF, "VERIF_CHILD_OUT="+outF)
	done := make(chan error, 1)
	var out []byte
	go func() { var err error; out, err = cmd.CombinedOutput(); done <- err }()
	select {
	case err := <-done:
		if err != nil {
			if strings.Contains(string(out), "ptrace") || strings.Contains(string(out), "Operation not permitted") {
				r.Inconclusive("ptrace not permitted in this sandbox")
				return
			}
			r.Violation("strace_child_failed", map[string]string{"part": "strace"}, map[string]any{"case": caseNo, "error": err.Error(), "output": string(out)})
			return
		}
	case <-time.After(3 * time.Minute):
		cmd.Process.Kill()
		r.Inconclusive("strace child watchdog")
		return
	}
	evs, err := strace.Parse(logF)
	if err != nil {
		r.T.Fatalf("parse strace log: %v", err)
	}
	var hist []string
	if b, err := os.ReadFile(outF); err == nil {
		json.Unmarshal(b, &hist)
	}
	rules := strace.Rules{AckMarker: in.Ack, Durable: func(p string) string {
		if strings.HasPrefix(p, in.Dir+"/") {
			return "segment"
		}
		return ""
	}}
	finds, st := strace.Check(evs, rules, strace.OSyncPaths(evs, logF))
	r.Event("strace_events", int64(st.Events))
	r.Event("strace_fsyncs", int64(st.Fsyncs))
	r.Event("strace_acks", int64(st.Acks))
	r.Event("strace_segment_writes", int64(st.DurableWrites["segment"]))
	if st.Acks == 0 || st.Fsyncs == 0 || st.DurableWrites["segment"] == 0 {
		r.Inconclusive("strace log shows no acknowledgements, fsyncs or segment writes")
		return
	}
	seen := map[string]bool{}
	for _, f := range finds {
		if seen[f.Rule] {
			continue
		}
		seen[f.Rule] = true
		r.Violation("durability_order", map[string]string{"rule": f.Rule, "file_class": "segment", "part": "strace"},
			map[string]any{"case": caseNo, "history": hist, "finding": f.String()})
	}
	r.Case(fmt.Sprint("strace", seed, hist), st.Acks >= 10)
}
