package g_query

import (
	"fmt"
	"math"
	"os"
	"sort"
	"testing"
	"time"

	"github.com/influxdata/influxdb/v2/influxql/query"

	"verifharness/vkit"
	"verifharness/vkit/sk"
)

// ---- query generators (through the C22 stack) ----------------------------------------------

var c23Xforms = []string{"difference", "non_negative_difference", "derivative", "non_negative_derivative", "moving_average", "cumulative_sum", "elapsed", "integral"}

func c23GenBase(rg *vkit.Rand, ds *c22Dataset, q *c22Query) {
	q.Meas = []string{"m0"}
	if rg.Chance(1, 5) {
		q.Meas = []string{"m1"}
	}
	c22GenTimeRange(rg, ds, q)
	if rg.Chance(1, 3) {
		q.Cond = c22GenLeaf(rg, ds)
	}
}

func c23GenXform(rg *vkit.Rand, ds *c22Dataset) *c22Query {
	q := &c22Query{}
	c23GenBase(rg, ds, q)
	switch rg.Intn(10) {
	case 0:
		// merged series: skipped by the reference when two values share a timestamp
	case 1, 2:
		q.GroupTags = []string{"t0", "t1", "t2"}
	default:
		q.GroupStar = true
	}
	f := vkit.Pick(rg, ds.numericFields())
	c := c22Col{Func: vkit.Pick(rg, c23Xforms), Field: f.Name}
	switch c.Func {
	case "derivative", "non_negative_derivative":
		c.Unit = vkit.Pick(rg, []int64{0, 0, c22U, 2 * c22U, 4 * c22U, 5e8})
	case "elapsed":
		c.Unit = vkit.Pick(rg, []int64{0, c22U, 1e6, 2 * c22U, 3 * c22U})
	case "integral":
		c.Unit = vkit.Pick(rg, []int64{0, c22U, 2 * c22U, 4 * c22U})
	case "moving_average":
		c.N = rg.Range(2, 5)
	}
	if c.Func != "integral" && rg.Chance(1, 2) {
		// nested form over GROUP BY time. The lower bound is kept at or below the first stored
		// timestamp: the engine reads one extra interval before the bound for these functions,
		// which the documentation does not describe (excluded, see evidence).
		c.Inner = vkit.Pick(rg, []string{"mean", "sum", "min", "max", "first", "last", "count"})
		c22GenInterval(rg, q)
		lo := rg.Range(ds.MinSlot-3, ds.MinSlot)
		q.TLo = int64(lo)*c22U - 1 // jitter-free datasets: every stored time ≥ MinSlot*1s
		q.LoExcl = rg.Chance(1, 4)
		if q.THi <= q.TLo {
			q.THi = q.TLo + 10*c22U
		}
		// fill(previous|<number>) also fills the extra leading interval the engine adds for
		// these functions (rows before the first window of the range): excluded with it.
		q.Fill = vkit.Pick(rg, []byte{0, 0, 'x', 'n'})
		if c.Inner == "count" && (q.Fill == 0 || q.Fill == 'n') {
			q.Fill = 'x' // count reports 0 for empty intervals under fill(null): keep the input explicit
		}
	}
	q.Cols = []c22Col{c}
	if c.Func != "integral" && rg.Chance(1, 5) {
		q.Limit = rg.Range(1, 4)
		if rg.Bool() {
			q.Off = rg.Range(1, 3)
		}
	}
	return q
}

var c23Scalars = []string{"median", "mode", "spread", "stddev", "percentile"}
var c23Percentiles = []int64{0, 10, 100, 250, 333, 500, 750, 900, 990, 1000}

func c23GenScalar(rg *vkit.Rand, ds *c22Dataset) *c22Query {
	q := &c22Query{}
	c23GenBase(rg, ds, q)
	switch rg.Intn(6) {
	case 0:
		q.GroupStar = true
	case 1, 2:
		p := rg.Perm(len(ds.TagKeys))
		for _, i := range p[:rg.Range(1, 2)] {
			q.GroupTags = append(q.GroupTags, ds.TagKeys[i])
		}
	}
	f := vkit.Pick(rg, ds.numericFields())
	c := c22Col{Func: vkit.Pick(rg, c23Scalars), Field: f.Name}
	if c.Func == "percentile" {
		c.P10 = vkit.Pick(rg, c23Percentiles)
	}
	q.Cols = []c22Col{c}
	if rg.Chance(1, 2) {
		c22GenInterval(rg, q)
		q.Fill = vkit.Pick(rg, []byte{0, 0, 'n', 'x', 'p', '#'})
		if q.Fill == '#' {
			q.FillNum = vkit.Pick(rg, []int64{0, -1, 7})
		}
	}
	q.Desc = rg.Chance(1, 6)
	if rg.Chance(1, 4) {
		q.Limit = rg.Range(1, 4)
		if rg.Bool() {
			q.Off = rg.Range(1, 3)
		}
	}
	return q
}

func c23GenMulti(rg *vkit.Rand, ds *c22Dataset) *c22Query {
	q := &c22Query{}
	c23GenBase(rg, ds, q)
	switch rg.Intn(4) {
	case 0:
		q.GroupStar = true
	case 1:
		q.GroupTags = []string{vkit.Pick(rg, ds.TagKeys)}
	}
	f := vkit.Pick(rg, ds.numericFields())
	c := c22Col{Func: vkit.Pick(rg, []string{"distinct", "top", "bottom"}), Field: f.Name}
	if c.Func != "distinct" {
		c.N = rg.Range(1, 4)
	}
	q.Cols = []c22Col{c}
	if rg.Chance(1, 2) {
		c22GenInterval(rg, q)
		q.Fill = 'x'
	}
	return q
}

// ---- direct reducer drive -----------------------------------------------------------------------

type c23Series struct {
	Int bool
	T   []int64
	I   []int64
	F   []float64
}

func c23GenSeries(rg *vkit.Rand) c23Series {
	s := c23Series{Int: rg.Bool()}
	n := rg.Range(0, 12)
	t := int64(rg.Range(-15, 5)) * c22U
	for i := 0; i < n; i++ {
		s.T = append(s.T, t)
		t += int64(rg.Range(1, 4)) * c22U
		if rg.Chance(1, 6) {
			t += int64(rg.Range(3, 9)) * c22U // gap
		}
		if s.Int {
			s.I = append(s.I, int64(rg.Range(-5, 9)))
		} else {
			s.F = append(s.F, float64(rg.Range(-20, 36))/4)
		}
	}
	return s
}

func (s c23Series) pts() []c22NumPt {
	var out []c22NumPt
	for i := range s.T {
		if s.Int {
			out = append(out, c22NumPt{T: s.T[i], K: 'i', I: s.I[i], F: float64(s.I[i])})
		} else {
			out = append(out, c22NumPt{T: s.T[i], K: 'f', F: s.F[i]})
		}
	}
	return out
}

func (s c23Series) pvs() []c22PV {
	var out []c22PV
	for i := range s.T {
		if s.Int {
			out = append(out, c22PV{s.T[i], sk.IntVal(s.I[i])})
		} else {
			out = append(out, c22PV{s.T[i], sk.FloatVal(s.F[i])})
		}
	}
	return out
}

func (s c23Series) String() string {
	out := "["
	for i := range s.T {
		if s.Int {
			out += fmt.Sprintf(" %d:%di", s.T[i]/c22U, s.I[i])
		} else {
			out += fmt.Sprintf(" %d:%v", s.T[i]/c22U, s.F[i])
		}
	}
	return out + " ] (times in s)"
}

func c23FromFloat(ps []query.FloatPoint) []c23Out {
	var out []c23Out
	for _, p := range ps {
		if p.Nil {
			out = append(out, c23Out{p.Time, c22Cell{}})
		} else {
			out = append(out, c23Out{p.Time, c22Cell{K: 'f', F: p.Value}})
		}
	}
	return out
}

func c23FromInt(ps []query.IntegerPoint) []c23Out {
	var out []c23Out
	for _, p := range ps {
		if p.Nil {
			out = append(out, c23Out{p.Time, c22Cell{}})
		} else {
			out = append(out, c23Out{p.Time, c22Cell{K: 'i', I: p.Value}})
		}
	}
	return out
}

// c23Stream drives a streaming reducer the way the stream iterators do: aggregate a point,
// then emit.
func c23Stream(s c23Series, aggF func(*query.FloatPoint), aggI func(*query.IntegerPoint), emit func() []c23Out) []c23Out {
	var out []c23Out
	for i := range s.T {
		if s.Int {
			aggI(&query.IntegerPoint{Time: s.T[i], Value: s.I[i]})
		} else {
			aggF(&query.FloatPoint{Time: s.T[i], Value: s.F[i]})
		}
		out = append(out, emit()...)
	}
	return out
}

func c23FmtOuts(o []c23Out) string {
	s := "["
	for _, x := range o {
		s += fmt.Sprintf(" %d:%s", x.T, x.C)
	}
	return s + " ]"
}

type c23RedWit struct {
	Reducer string `json:"reducer"`
	Input   string `json:"input"`
	Want    string `json:"want"`
	Got     string `json:"got"`
}

// c23Reducers runs one generated series through every exported reducer of the C23 functions.
func c23Reducers(r *vkit.Run, rg *vkit.Rand, s c23Series) {
	fail := func(name, want, got string) {
		r.Violation("reducer_mismatch", map[string]string{"reducer": name, "int": fmt.Sprint(s.Int)}, c23RedWit{name, s.String(), want, got})
	}
	cmpSeq := func(name string, want, got []c23Out, timeToo bool) {
		r.Event("reducer_"+name, 1)
		ok := len(want) == len(got)
		for i := 0; ok && i < len(want); i++ {
			if timeToo && want[i].T != got[i].T {
				ok = false
			}
			if !c22OneMatch(c22ExpCell{}, want[i].C, got[i].C) {
				ok = false
			}
		}
		if !ok {
			fail(name, c23FmtOuts(want), c23FmtOuts(got))
		}
	}
	in := s.pts()
	// derivative / non_negative_derivative
	for _, nn := range []bool{false, true} {
		unit := vkit.Pick(rg, []int64{c22U, 2 * c22U, 4 * c22U, 5e8})
		fn := "derivative"
		if nn {
			fn = "non_negative_derivative"
		}
		fr := query.NewFloatDerivativeReducer(query.Interval{Duration: time.Duration(unit)}, nn, true)
		ir := query.NewIntegerDerivativeReducer(query.Interval{Duration: time.Duration(unit)}, nn, true)
		got := c23Stream(s, fr.AggregateFloat, ir.AggregateInteger, func() []c23Out {
			if s.Int {
				return c23FromFloat(ir.Emit())
			}
			return c23FromFloat(fr.Emit())
		})
		cmpSeq(fn, c23Seq(fn, in, unit, 0, 0), got, true)
	}
	// difference / non_negative_difference
	for _, nn := range []bool{false, true} {
		fn := "difference"
		if nn {
			fn = "non_negative_difference"
		}
		fr := query.NewFloatDifferenceReducer(nn)
		ir := query.NewIntegerDifferenceReducer(nn)
		got := c23Stream(s, fr.AggregateFloat, ir.AggregateInteger, func() []c23Out {
			if s.Int {
				return c23FromInt(ir.Emit())
			}
			return c23FromFloat(fr.Emit())
		})
		cmpSeq(fn, c23Seq(fn, in, 0, 0, 0), got, true)
	}
	// moving_average
	{
		n := rg.Range(1, 5)
		fr := query.NewFloatMovingAverageReducer(n)
		ir := query.NewIntegerMovingAverageReducer(n)
		got := c23Stream(s, fr.AggregateFloat, ir.AggregateInteger, func() []c23Out {
			if s.Int {
				return c23FromFloat(ir.Emit())
			}
			return c23FromFloat(fr.Emit())
		})
		cmpSeq("moving_average", c23Seq("moving_average", in, 0, 0, n), got, true)
	}
	// cumulative_sum
	{
		fr := query.NewFloatCumulativeSumReducer()
		ir := query.NewIntegerCumulativeSumReducer()
		got := c23Stream(s, fr.AggregateFloat, ir.AggregateInteger, func() []c23Out {
			if s.Int {
				return c23FromInt(ir.Emit())
			}
			return c23FromFloat(fr.Emit())
		})
		cmpSeq("cumulative_sum", c23Seq("cumulative_sum", in, 0, 0, 0), got, true)
	}
	// elapsed
	{
		unit := vkit.Pick(rg, []int64{1, 1e6, c22U, 2 * c22U, 3 * c22U})
		fr := query.NewFloatElapsedReducer(query.Interval{Duration: time.Duration(unit)})
		ir := query.NewIntegerElapsedReducer(query.Interval{Duration: time.Duration(unit)})
		got := c23Stream(s, fr.AggregateFloat, ir.AggregateInteger, func() []c23Out {
			if s.Int {
				return c23FromInt(ir.Emit())
			}
			return c23FromInt(fr.Emit())
		})
		cmpSeq("elapsed", c23Seq("elapsed", in, unit, 0, 0), got, true)
	}
	// aggregate reducers: everything in, one emit
	pv := s.pvs()
	all := func(aggF func(*query.FloatPoint), aggI func(*query.IntegerPoint)) {
		for i := range s.T {
			if s.Int {
				aggI(&query.IntegerPoint{Time: s.T[i], Value: s.I[i]})
			} else {
				aggF(&query.FloatPoint{Time: s.T[i], Value: s.F[i]})
			}
		}
	}
	fpts := func() []query.FloatPoint {
		var a []query.FloatPoint
		for i := range s.T {
			a = append(a, query.FloatPoint{Time: s.T[i], Value: s.F[i]})
		}
		return a
	}
	ipts := func() []query.IntegerPoint {
		var a []query.IntegerPoint
		for i := range s.T {
			a = append(a, query.IntegerPoint{Time: s.T[i], Value: s.I[i]})
		}
		return a
	}
	cmpAgg := func(name string, c c22Col, got []c23Out, selector bool) {
		r.Event("reducer_"+name, 1)
		want, ts := c22Agg(c, pv)
		if len(pv) == 0 || (len(want.Alts) == 1 && want.Alts[0].K == 0) {
			// no value: nothing emitted, or a nil point
			if len(got) == 0 || (len(got) == 1 && got[0].C.K == 0) {
				return
			}
			fail(name, "no value", c23FmtOuts(got))
			return
		}
		if len(got) == 0 {
			// a null alternative (percentile index out of range / boundary) allows no output
			for _, a := range want.Alts {
				if a.K == 0 {
					return
				}
			}
			fail(name, c22FmtExpRow(c22ExpRow{TAlts: ts, Cells: []c22ExpCell{want}}), "nothing")
			return
		}
		ok := len(got) == 1 && c22CellMatch(want, got[0].C)
		if ok && selector {
			okT := false
			for _, t := range ts {
				if t == got[0].T {
					okT = true
				}
			}
			ok = okT
		}
		if !ok {
			fail(name, c22FmtExpRow(c22ExpRow{TAlts: ts, Cells: []c22ExpCell{want}}), c23FmtOuts(got))
		}
	}
	// spread
	{
		fr, ir := query.NewFloatSpreadReducer(), query.NewIntegerSpreadReducer()
		all(fr.AggregateFloat, ir.AggregateInteger)
		var got []c23Out
		if len(s.T) > 0 {
			if s.Int {
				got = c23FromInt(ir.Emit())
			} else {
				got = c23FromFloat(fr.Emit())
			}
		}
		cmpAgg("spread", c22Col{Func: "spread"}, got, false)
	}
	// median / mode / stddev / percentile (slice functions)
	if len(s.T) > 0 {
		if s.Int {
			cmpAgg("median", c22Col{Func: "median"}, c23FromFloat(query.IntegerMedianReduceSlice(ipts())), false)
			cmpAgg("mode", c22Col{Func: "mode"}, c23FromInt(query.IntegerModeReduceSlice(ipts())), false)
			cmpAgg("stddev", c22Col{Func: "stddev"}, c23FromFloat(query.IntegerStddevReduceSlice(ipts())), false)
		} else {
			cmpAgg("median", c22Col{Func: "median"}, c23FromFloat(query.FloatMedianReduceSlice(fpts())), false)
			cmpAgg("mode", c22Col{Func: "mode"}, c23FromFloat(query.FloatModeReduceSlice(fpts())), false)
			cmpAgg("stddev", c22Col{Func: "stddev"}, c23FromFloat(query.FloatStddevReduceSlice(fpts())), false)
		}
		p10 := vkit.Pick(rg, c23Percentiles)
		if s.Int {
			cmpAgg("percentile", c22Col{Func: "percentile", P10: p10}, c23FromInt(query.NewIntegerPercentileReduceSliceFunc(float64(p10)/10)(ipts())), true)
		} else {
			cmpAgg("percentile", c22Col{Func: "percentile", P10: p10}, c23FromFloat(query.NewFloatPercentileReduceSliceFunc(float64(p10)/10)(fpts())), true)
		}
	}
	// distinct
	{
		fr, ir := query.NewFloatDistinctReducer(), query.NewIntegerDistinctReducer()
		all(fr.AggregateFloat, ir.AggregateInteger)
		var got []c23Out
		if s.Int {
			got = c23FromInt(ir.Emit())
		} else {
			got = c23FromFloat(fr.Emit())
		}
		r.Event("reducer_distinct", 1)
		want := map[c22Cell]int{}
		for _, p := range pv {
			want[c22ValCell(p.V)] = 1
		}
		seen := map[c22Cell]int{}
		for _, g := range got {
			seen[g.C]++
		}
		ok := len(seen) == len(want) && len(got) == len(want)
		for k := range want {
			if seen[k] != 1 {
				ok = false
			}
		}
		if !ok {
			fail("distinct", fmt.Sprint(len(want), " distinct values"), c23FmtOuts(got))
		}
	}
	// top / bottom: the n extreme points
	for _, fn := range []string{"top", "bottom"} {
		n := rg.Range(1, 4)
		var got []c23Out
		if fn == "top" {
			fr, ir := query.NewFloatTopReducer(n), query.NewIntegerTopReducer(n)
			all(fr.AggregateFloat, ir.AggregateInteger)
			if s.Int {
				got = c23FromInt(ir.Emit())
			} else {
				got = c23FromFloat(fr.Emit())
			}
		} else {
			fr, ir := query.NewFloatBottomReducer(n), query.NewIntegerBottomReducer(n)
			all(fr.AggregateFloat, ir.AggregateInteger)
			if s.Int {
				got = c23FromInt(ir.Emit())
			} else {
				got = c23FromFloat(fr.Emit())
			}
		}
		r.Event("reducer_"+fn, 1)
		sign := 1.0
		if fn == "bottom" {
			sign = -1
		}
		var xs []float64
		type tx struct {
			t int64
			x float64
		}
		var txs []tx
		stored := map[c22OutKey]int{}
		for _, p := range pv {
			x, _ := c22Num(p.V)
			xs = append(xs, sign*x)
			txs = append(txs, tx{p.T, sign * x})
			stored[c22OutKey{p.T, c22ValCell(p.V)}]++
		}
		// documented tie-break: of equal values the earliest point is returned
		sort.SliceStable(txs, func(i, j int) bool {
			if txs[i].x != txs[j].x {
				return txs[i].x > txs[j].x
			}
			return txs[i].t < txs[j].t
		})
		if len(txs) > n {
			txs = txs[:n]
		}
		var wantTX, gotTX []string
		for _, p := range txs {
			wantTX = append(wantTX, fmt.Sprintf("%d:%v", p.t, p.x))
		}
		sort.Strings(wantTX)
		sort.Sort(sort.Reverse(sort.Float64Slice(xs)))
		if len(xs) > n {
			xs = xs[:n]
		}
		sort.Float64s(xs)
		var gx []float64
		ok := true
		// (the reducer emits the points ranked by value; the time order of the documented output
		// is produced by the iterator stack and is checked in part A)
		for _, g := range got {
			stored[c22OutKey{g.T, g.C}]--
			if stored[c22OutKey{g.T, g.C}] < 0 {
				ok = false
			}
			x := g.C.F
			if g.C.K == 'i' {
				x = float64(g.C.I)
			}
			gx = append(gx, sign*x)
			gotTX = append(gotTX, fmt.Sprintf("%d:%v", g.T, sign*x))
		}
		sort.Float64s(gx)
		sort.Strings(gotTX)
		if !ok || fmt.Sprint(gx) != fmt.Sprint(xs) {
			fail(fn, fmt.Sprintf("the %d extreme stored points (sign-normalised values %v)", n, xs), c23FmtOuts(got))
		} else if fmt.Sprint(gotTX) != fmt.Sprint(wantTX) {
			fail(fn+"_tie", fmt.Sprintf("the %d extreme stored points, ties on the value going to the earliest point: (time:sign-normalised value) %v", n, wantTX), c23FmtOuts(got))
		}
	}
}

// ---- the check --------------------------------------------------------------------------------

func TestC23(t *testing.T) {
	if p := os.Getenv("VERIF_REPLAY"); p != "" {
		c22ReplayFile(t, "C23", p)
		return
	}
	r := vkit.Start(t, "C23", "exploration")
	defer r.Finish()
	defer c22PanicGuard(t)
	r.Rule("part A: case = (dataset, SELECT f(...)): numeric datasets (int and dyadic float fields, duplicates, gaps, negative values and timestamps, 1 s grid) in 1–3 real shards; f over a raw field (GROUP BY * / all tags) and over a nested aggregate with GROUP BY time (transformations), percentile/median/mode/spread/stddev with and without GROUP BY time and fills, distinct/top/bottom; run through query.Select + Emitter and compared with the documented definitions. part B: case = (series, reducer): a generated series (0–12 points) fed directly to the exported reducers / slice functions. non-trivial = reference output has ≥ 1 row (A) or input has ≥ 2 points (B); distinct = hash of dataset+query text (A) or of series (B)")
	r.Trust("github.com/influxdata/influxql parser", "vkit/sk shard opener")
	excluded := []string{
		"ORDER BY time DESC for transformations (output timestamps under DESC are not documented)",
		"nested transformations with stored data in the interval(s) before the lower time bound, or with fill(previous|<number>) (the engine reads/fills one extra interval before the bound; not documented)",
		"order of output series (compared as a set; integral() emits them in reverse tag order)",
		"integral() with GROUP BY time (interpolation at window boundaries not documented)",
		"transformations over a merged series that has two values at one timestamp",
		"fill(linear) (covered by C22), multiple columns, SLIMIT/SOFFSET (covered by C22)",
		"top/bottom with a tag argument, sample(), holt_winters(), exponential moving averages and other technical-analysis functions",
		"stddev of a single value: null or NaN both accepted; integral of a single point: 0 or no row both accepted",
	}
	nDS := r.N(80, 3000)
	perDS := r.N(60, 80)
	var reportDur time.Duration
	samplesA := 0
	if os.Getenv("C23_PART") == "B" {
		nDS = 0
	}
	for di := 0; di < nDS; di++ {
		if c22WatchdogFired >= 3 {
			r.Inconclusive("gave up after 3 statements hung inside the engine")
			break
		}
		rg := r.Rand(di)
		ds := c22GenDataset(rg, c22DSOpts{NumericOnly: true, NoJitter: true, Dense: rg.Bool()})
		dir, err := os.MkdirTemp("", "c23")
		if err != nil {
			t.Fatal(err)
		}
		st, err := c22OpenStack(dir, ds.Specs)
		if err != nil {
			t.Fatalf("dataset %d: %v", di, err)
		}
		r.Event("datasets", 1)
		for qi := 0; qi < perDS; qi++ {
			qr := r.SubRand("q", di*1000+qi)
			var q *c22Query
			switch qr.Intn(5) {
			case 0, 1:
				q = c23GenXform(qr, ds)
			case 2, 3:
				q = c23GenScalar(qr, ds)
			default:
				q = c23GenMulti(qr, ds)
			}
			q.UnorderedSeries = true
			class, detail, exp := c22Check(st, ds.Model, q)
			fn := q.Cols[0].Func
			if exp.Ambiguous == "watchdog" {
				r.Inconclusive("query watchdog fired: " + q.String())
				break
			}
			if exp.Ambiguous != "" {
				r.Event("skipped_ambiguous", 1)
				continue
			}
			rows := c22CountRows(exp)
			r.Case("A|"+ds.Describe+"|"+q.String(), rows >= 1)
			r.Event("select_"+fn, 1)
			if q.Cols[0].Inner != "" {
				r.Event("select_nested_"+fn, 1)
			}
			if q.Interval != 0 && q.Cols[0].Inner == "" {
				r.Event("select_group_by_time_"+fn, 1)
			}
			r.Event("rows_compared", int64(rows))
			if rows >= 2 && samplesA < 4 && qi%11 == 5 {
				samplesA++
				r.Sample(map[string]any{"part": "A", "dataset": ds.Describe, "query": q.String(), "expected_series": len(exp.Series), "expected_rows": rows})
			}
			if class != "" {
				t0 := time.Now()
				c22Report(r, st, ds, q, di, qi, class, detail, map[string]string{"function": fn, "nested": q.Cols[0].Inner})
				reportDur += time.Since(t0)
			}
		}
		st.Close()
	}
	nB := r.N(10000, 150000)
	for i := 0; i < nB; i++ {
		rg := r.SubRand("reducers", i)
		s := c23GenSeries(rg)
		r.Case("B|"+s.String(), len(s.T) >= 2)
		if i%501 == 7 && len(s.T) >= 3 {
			r.Sample(map[string]any{"part": "B", "series": s.String()})
		}
		c23Reducers(r, rg, s)
	}
	r.Extra("excluded", excluded)
	if c22WatchdogFired >= 3 {
		// most of the budget was not evaluated: never report that as "held"
		fmt.Printf("INCONCLUSIVE property=C23 gave up after %d statements hung inside the engine (see evidence.inconclusive)\n", c22WatchdogFired)
		defer t.Fatalf("INCONCLUSIVE")
	}
	r.Extra("seconds_spent_minimising_and_classifying_violations", reportDur.Seconds())
	_ = math.Pi
}
