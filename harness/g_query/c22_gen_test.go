package g_query

import (
	"fmt"
	"sort"

	"verifharness/vkit"
	"verifharness/vkit/sk"
)

const c22U = int64(1e9) // grid unit: 1s

type c22FieldDef struct {
	Name string
	Kind byte
}

type c22Dataset struct {
	Specs    []c22ShardSpec
	Model    *c22Model
	Meas     []string
	TagKeys  []string
	TagVals  map[string][]string
	Fields   []c22FieldDef
	MinSlot  int
	MaxSlot  int
	NSeries  int
	NPoints  int
	NCache   int // points whose newest version was left in the cache/WAL
	NTSM     int
	Overwr   int
	Jitter   bool
	Unique   bool
	Describe string
}

type c22DSOpts struct {
	NumericOnly bool // C23: numeric fields only
	NoJitter    bool // timestamps stay on the 1s grid (dyadic elapsed/unit ratios)
	Dense       bool
}

func (w c22Write) withStr() c22Write {
	w.FStr = map[string]string{}
	for k, v := range w.Fields {
		w.FStr[k] = v.String()
	}
	return w
}

func c22GenDataset(rg *vkit.Rand, o c22DSOpts) *c22Dataset {
	ds := &c22Dataset{Model: c22NewModel(), Meas: []string{"m0", "m1"}, TagVals: map[string][]string{}}
	ds.TagKeys = []string{"t0", "t1", "t2"}
	ds.TagVals["t0"] = []string{"a", "b", "c"}[:rg.Range(2, 3)]
	ds.TagVals["t1"] = []string{"x", "y"}
	ds.TagVals["t2"] = []string{"", "p"} // "" = series without the tag
	ds.Jitter = !o.NoJitter && rg.Chance(1, 3)
	ds.Unique = rg.Chance(1, 3)
	// fields
	k0 := byte('i')
	if rg.Bool() {
		k0 = 'f'
	}
	k1 := byte('f')
	if rg.Chance(1, 3) {
		k1 = 'i'
	}
	ds.Fields = []c22FieldDef{{"f0", k0}}
	if rg.Chance(3, 4) {
		ds.Fields = append(ds.Fields, c22FieldDef{"f1", k1})
	}
	if !o.NumericOnly && rg.Chance(1, 2) {
		k2 := byte('s')
		if rg.Bool() {
			k2 = 'b'
		}
		ds.Fields = append(ds.Fields, c22FieldDef{"f2", k2})
	}
	// shards
	ns := rg.Range(1, 3)
	ds.MinSlot, ds.MaxSlot = -rg.Range(4, 20), rg.Range(8, 40)
	cuts := []int64{-1000 * c22U}
	switch ns {
	case 2:
		cuts = append(cuts, int64(rg.Range(ds.MinSlot+1, ds.MaxSlot-1))*c22U)
	case 3:
		a := rg.Range(ds.MinSlot+1, ds.MaxSlot-2)
		b := rg.Range(a+1, ds.MaxSlot-1)
		cuts = append(cuts, int64(a)*c22U, int64(b)*c22U)
	}
	cuts = append(cuts, 1000*c22U)
	// series
	type ser struct {
		m    string
		tags map[string]string
	}
	var sers []ser
	for mi, m := range ds.Meas {
		n := rg.Range(2, 6)
		if mi == 1 {
			n = rg.Range(1, 3)
		}
		seen := map[string]bool{}
		for len(seen) < n {
			tags := map[string]string{"t0": vkit.Pick(rg, ds.TagVals["t0"]), "t1": vkit.Pick(rg, ds.TagVals["t1"])}
			if rg.Chance(1, 3) {
				tags["t2"] = "p"
			}
			if rg.Chance(1, 12) {
				delete(tags, "t1")
			}
			k := c22TagString(tags)
			if seen[k] {
				continue
			}
			seen[k] = true
			sers = append(sers, ser{m, tags})
		}
	}
	ds.NSeries = len(sers)
	// points
	counter := int64(100)
	val := func(kind byte) sk.Val {
		counter++
		switch kind {
		case 'i':
			if ds.Unique {
				return sk.IntVal(counter)
			}
			return sk.IntVal(int64(rg.Range(-3, 6)))
		case 'f':
			if ds.Unique {
				return sk.FloatVal(float64(counter) / 2)
			}
			return sk.FloatVal(float64(rg.Range(-12, 24)) / 4)
		case 's':
			if ds.Unique {
				return sk.StrVal(fmt.Sprintf("w%d", counter))
			}
			return sk.StrVal(vkit.Pick(rg, []string{"a", "b", "c", "a b"}))
		default:
			return sk.BoolVal(rg.Bool())
		}
	}
	fieldsOf := func() map[string]sk.Val {
		fs := map[string]sk.Val{}
		for _, f := range ds.Fields {
			if rg.Chance(3, 4) {
				fs[f.Name] = val(f.Kind)
			}
		}
		if len(fs) == 0 {
			f := vkit.Pick(rg, ds.Fields)
			fs[f.Name] = val(f.Kind)
		}
		return fs
	}
	dens := rg.Range(2, 7)
	if o.Dense {
		dens = rg.Range(5, 9)
	}
	var all []c22Write
	for _, s := range sers {
		for slot := ds.MinSlot; slot <= ds.MaxSlot; slot++ {
			if rg.Intn(10) >= dens {
				continue
			}
			t := int64(slot) * c22U
			if ds.Jitter && rg.Chance(1, 4) {
				t += vkit.Pick(rg, []int64{1, -1, 5e8, 999999999})
			}
			all = append(all, c22Write{Meas: s.m, Tags: s.tags, T: t, Fields: fieldsOf()}.withStr())
		}
	}
	ds.NPoints = len(all)
	// distribute over shards and batches
	ds.Specs = make([]c22ShardSpec, ns)
	for i := range ds.Specs {
		ds.Specs[i].Lo, ds.Specs[i].Hi = cuts[i], cuts[i+1]
		nb := rg.Range(1, 3)
		ds.Specs[i].Batches = make([][]c22Write, nb)
		ds.Specs[i].Snap = make([]bool, nb)
		for b := range ds.Specs[i].Snap {
			ds.Specs[i].Snap[b] = rg.Chance(3, 5)
		}
		ds.Specs[i].Reopen = rg.Chance(1, 5)
	}
	shardOf := func(t int64) int {
		for i := range ds.Specs {
			if t >= ds.Specs[i].Lo && t < ds.Specs[i].Hi {
				return i
			}
		}
		panic("no shard")
	}
	perm := rg.Perm(len(all))
	for _, pi := range perm {
		w := all[pi]
		si := shardOf(w.T)
		sp := &ds.Specs[si]
		b := rg.Intn(len(sp.Batches))
		sp.Batches[b] = append(sp.Batches[b], w)
		// overwrite in a later batch: same series and timestamp, new values for some fields
		if b+1 < len(sp.Batches) && rg.Chance(1, 8) {
			ow := c22Write{Meas: w.Meas, Tags: w.Tags, T: w.T, Fields: fieldsOf()}.withStr()
			b2 := rg.Range(b+1, len(sp.Batches)-1)
			sp.Batches[b2] = append(sp.Batches[b2], ow)
			ds.Overwr++
		}
	}
	for si := range ds.Specs {
		sp := &ds.Specs[si]
		for b := range sp.Batches {
			for _, w := range sp.Batches[b] {
				ds.Model.Put(w)
			}
			// everything after the last snapshot stays in cache
			inCache := true
			for k := b; k < len(sp.Snap); k++ {
				if sp.Snap[k] {
					inCache = false
				}
			}
			if inCache {
				ds.NCache += len(sp.Batches[b])
			} else {
				ds.NTSM += len(sp.Batches[b])
			}
		}
	}
	ds.Describe = fmt.Sprintf("shards=%d series=%d points=%d overwrites=%d tsm=%d cache=%d jitter=%v unique=%v fields=%v slots=[%d,%d]",
		ns, ds.NSeries, ds.NPoints, ds.Overwr, ds.NTSM, ds.NCache, ds.Jitter, ds.Unique, ds.fieldNames(), ds.MinSlot, ds.MaxSlot)
	return ds
}

func (ds *c22Dataset) fieldNames() []string {
	var out []string
	for _, f := range ds.Fields {
		out = append(out, fmt.Sprintf("%s:%c", f.Name, f.Kind))
	}
	return out
}

func (ds *c22Dataset) numericFields() []c22FieldDef {
	var out []c22FieldDef
	for _, f := range ds.Fields {
		if f.Kind == 'i' || f.Kind == 'f' {
			out = append(out, f)
		}
	}
	return out
}

// ---- query generator --------------------------------------------------------------------

func c22GenTimeRange(rg *vkit.Rand, ds *c22Dataset, q *c22Query) {
	lo := rg.Range(ds.MinSlot-3, ds.MaxSlot-1)
	if rg.Chance(1, 3) {
		lo = rg.Range(ds.MinSlot-3, ds.MinSlot+2)
	}
	hi := rg.Range(lo+1, ds.MaxSlot+4)
	if rg.Chance(1, 3) {
		hi = rg.Range(ds.MaxSlot-2, ds.MaxSlot+4)
		if hi <= lo {
			hi = lo + 1
		}
	}
	q.TLo = int64(lo) * c22U
	q.THi = int64(hi)*c22U - 1
	if rg.Chance(1, 5) {
		q.TLo += vkit.Pick(rg, []int64{1, -1, 5e8})
	}
	if rg.Chance(1, 5) {
		q.THi += vkit.Pick(rg, []int64{1, -1, 5e8})
	}
	q.LoExcl = rg.Chance(1, 4)
	q.HiIncl = rg.Chance(1, 4)
	q.TimeStyle = rg.Intn(3)
}

func c22GenLeaf(rg *vkit.Rand, ds *c22Dataset) *c22Cond {
	if rg.Chance(1, 2) {
		key := vkit.Pick(rg, ds.TagKeys)
		c := &c22Cond{Op: "tag", Key: key, Lit: 's'}
		switch rg.Intn(6) {
		case 0, 1:
			c.Cmp = "="
		case 2, 3:
			c.Cmp = "!="
		case 4:
			c.Cmp = "=~"
		default:
			c.Cmp = "!~"
		}
		if c.Cmp == "=~" || c.Cmp == "!~" {
			c.Lit = 'r'
			c.Key = vkit.Pick(rg, []string{"t0", "t1"})
			c.Str = vkit.Pick(rg, []string{"^a", "a|b", "[bc]", "x$", "^y$", "."})
			return c
		}
		vals := append([]string{"zz"}, ds.TagVals[key]...)
		c.Str = vkit.Pick(rg, vals)
		return c
	}
	f := vkit.Pick(rg, ds.Fields)
	c := &c22Cond{Op: "field", Key: f.Name}
	switch f.Kind {
	case 'i', 'f':
		c.Cmp = vkit.Pick(rg, []string{"=", "!=", "<", "<=", ">", ">="})
		if rg.Bool() {
			c.Lit = 'i'
			c.Int = int64(rg.Range(-3, 6))
			if ds.Unique {
				c.Int = int64(rg.Range(100, 100+ds.NPoints*3))
			}
		} else {
			c.Lit = 'f'
			c.Num = float64(rg.Range(-12, 24)) / 4
			if ds.Unique {
				c.Num = float64(rg.Range(100, 100+ds.NPoints*3)) / 2
			}
		}
	case 's':
		c.Cmp = vkit.Pick(rg, []string{"=", "!="})
		c.Lit = 's'
		c.Str = vkit.Pick(rg, []string{"a", "b", "a b", "zz"})
	default:
		c.Cmp = vkit.Pick(rg, []string{"=", "!="})
		c.Lit = 'b'
		c.Bool = rg.Bool()
	}
	return c
}

func c22GenCond(rg *vkit.Rand, ds *c22Dataset, depth int) *c22Cond {
	if depth == 0 || rg.Chance(1, 2) {
		return c22GenLeaf(rg, ds)
	}
	op := "and"
	if rg.Bool() {
		op = "or"
	}
	return &c22Cond{Op: op, L: c22GenCond(rg, ds, depth-1), R: c22GenCond(rg, ds, depth-1)}
}

func c22GenCommon(rg *vkit.Rand, ds *c22Dataset, q *c22Query) {
	switch rg.Intn(10) {
	case 0:
		q.Meas = []string{"m1"}
	case 1, 2:
		q.Meas = []string{"m0", "m1"}
	default:
		q.Meas = []string{"m0"}
	}
	c22GenTimeRange(rg, ds, q)
	if rg.Chance(1, 2) {
		q.Cond = c22GenCond(rg, ds, 2)
	}
	switch rg.Intn(8) {
	case 0:
		q.GroupStar = true
	case 1, 2, 3:
		p := rg.Perm(len(ds.TagKeys))
		n := rg.Range(1, len(ds.TagKeys))
		for _, i := range p[:n] {
			q.GroupTags = append(q.GroupTags, ds.TagKeys[i])
		}
	}
	q.Desc = rg.Chance(1, 4)
	if rg.Chance(1, 3) {
		q.Limit = rg.Range(1, 4)
	}
	// The documentation states that OFFSET requires LIMIT and SOFFSET requires SLIMIT ("can cause
	// inconsistent query results" otherwise): only generated together.
	if q.Limit > 0 && rg.Chance(1, 2) {
		q.Off = rg.Range(1, 3)
	}
	if rg.Chance(1, 4) {
		q.SLimit = rg.Range(1, 2)
		if rg.Chance(1, 2) {
			q.SOff = rg.Range(1, 2)
		}
	}
}

var c22Intervals = []int64{1 * c22U, 2 * c22U, 3 * c22U, 5 * c22U, 7 * c22U, 10 * c22U, 16 * c22U, 1500e6}

func c22GenInterval(rg *vkit.Rand, q *c22Query) {
	q.Interval = vkit.Pick(rg, c22Intervals)
	if rg.Chance(1, 3) {
		q.Offset = vkit.Pick(rg, []int64{c22U, -c22U, 2 * c22U, q.Interval + c22U, 5e8, -q.Interval - 5e8})
	}
}

func c22GenRaw(rg *vkit.Rand, ds *c22Dataset) *c22Query {
	q := &c22Query{}
	c22GenCommon(rg, ds, q)
	n := rg.Range(1, 3)
	p := rg.Perm(len(ds.Fields))
	for i := 0; i < n && i < len(p); i++ {
		q.Cols = append(q.Cols, c22Col{Field: ds.Fields[p[i]].Name})
	}
	if rg.Chance(1, 4) {
		q.Cols = append(q.Cols, c22Col{Field: vkit.Pick(rg, ds.TagKeys), IsTag: true})
	}
	if rg.Chance(1, 6) {
		q.Cols[0].Alias = "al"
	}
	return q
}

var c22AggFuncs = []string{"count", "sum", "mean", "min", "max", "first", "last"}

func c22GenAgg(rg *vkit.Rand, ds *c22Dataset) *c22Query {
	q := &c22Query{}
	c22GenCommon(rg, ds, q)
	n := rg.Range(1, 3)
	allNumeric := true
	names := map[string]bool{}
	calls := map[string]bool{}
	for i := 0; i < n; i++ {
		fn := vkit.Pick(rg, c22AggFuncs)
		var f c22FieldDef
		switch fn {
		case "count", "first", "last":
			f = vkit.Pick(rg, ds.Fields)
		default:
			f = vkit.Pick(rg, ds.numericFields())
		}
		if f.Kind == 's' || f.Kind == 'b' {
			if fn != "count" {
				allNumeric = false
			}
		}
		if calls[fn+"/"+f.Name] {
			continue // the same call twice is one call to the engine (selector time rule unclear)
		}
		calls[fn+"/"+f.Name] = true
		c := c22Col{Func: fn, Field: f.Name}
		if names[fn] || rg.Chance(1, 6) {
			c.Alias = fmt.Sprintf("c%d", i)
		}
		names[c.name()] = true
		q.Cols = append(q.Cols, c)
	}
	if rg.Chance(2, 3) {
		c22GenInterval(rg, q)
		fills := []byte{0, 0, 'n', 'x', 'p', 'l', '#'}
		q.Fill = vkit.Pick(rg, fills)
		if (q.Fill == 'l' || q.Fill == '#') && !allNumeric {
			q.Fill = 'p'
		}
		if q.Fill == '#' {
			q.FillNum = vkit.Pick(rg, []int64{0, -1, 7, 100})
		}
	}
	return q
}

func (q *c22Query) features() map[string]string {
	f := map[string]string{}
	kind := "raw"
	if q.Cols[0].Func != "" {
		kind = "call"
	}
	f["kind"] = kind
	var fns []string
	for _, c := range q.Cols {
		n := c.Func
		if c.Inner != "" {
			n += "(" + c.Inner + ")"
		}
		if n != "" {
			fns = append(fns, n)
		}
	}
	sort.Strings(fns)
	f["funcs"] = fmt.Sprint(fns)
	f["group_time"] = fmt.Sprint(q.Interval != 0)
	f["group_tags"] = fmt.Sprint(len(q.GroupTags) > 0 || q.GroupStar)
	fill := "default"
	switch q.Fill {
	case 'n':
		fill = "null"
	case 'x':
		fill = "none"
	case 'p':
		fill = "previous"
	case 'l':
		fill = "linear"
	case '#':
		fill = "number"
	}
	f["fill"] = fill
	f["desc"] = fmt.Sprint(q.Desc)
	f["limit"] = fmt.Sprint(q.Limit > 0)
	f["offset"] = fmt.Sprint(q.Off > 0)
	f["slimit"] = fmt.Sprint(q.SLimit > 0 || q.SOff > 0)
	f["where"] = fmt.Sprint(q.Cond != nil)
	return f
}
