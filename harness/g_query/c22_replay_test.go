package g_query

import (
	"encoding/json"
	"fmt"
	"os"
	"strconv"
	"strings"
	"testing"

	"verifharness/vkit/sk"
)

func c22ParseVal(s string) sk.Val {
	switch {
	case strings.HasSuffix(s, "(f)"):
		f, _ := strconv.ParseFloat(strings.TrimSuffix(s, "(f)"), 64)
		return sk.FloatVal(f)
	case strings.HasPrefix(s, `"`):
		u, _ := strconv.Unquote(s)
		return sk.StrVal(u)
	case s == "true" || s == "false":
		return sk.BoolVal(s == "true")
	case strings.HasSuffix(s, "i"):
		i, _ := strconv.ParseInt(strings.TrimSuffix(s, "i"), 10, 64)
		return sk.IntVal(i)
	}
	panic("c22ParseVal: " + s)
}

// c22LoadWitness rebuilds shard specs from a replay file written by c22Report.
var c22ReplayQ *c22Query

func c22LoadWitness(path string) (query string, specs []c22ShardSpec, err error) {
	b, err := os.ReadFile(path)
	if err != nil {
		return "", nil, err
	}
	var rec struct {
		Witness c22Witness `json:"witness"`
	}
	if err := json.Unmarshal(b, &rec); err != nil {
		return "", nil, err
	}
	for _, s := range rec.Witness.Shards {
		sp := c22ShardSpec{Lo: s.Lo, Hi: s.Hi, Snap: s.Snap, Reopen: s.Reopen}
		for _, bt := range s.Batches {
			var nb []c22Write
			for _, w := range bt {
				w.Fields = map[string]sk.Val{}
				for k, v := range w.FStr {
					w.Fields[k] = c22ParseVal(v)
				}
				nb = append(nb, w)
			}
			sp.Batches = append(sp.Batches, nb)
		}
		specs = append(specs, sp)
	}
	c22ReplayQ = rec.Witness.Q
	q := rec.Witness.MinQuery
	if q == "" {
		q = rec.Witness.Query
	}
	return q, specs, nil
}

// TestC22Replay re-runs the (minimised) witness of a replay file on freshly built shards and
// prints what the engine returns; extra statements can be given in C22_Q (separated by ';').
// VERIF_REPLAY=<file> go test -run TestC22Replay
func TestC22Replay(t *testing.T) {
	path := os.Getenv("VERIF_REPLAY")
	if path == "" {
		t.Skip("VERIF_REPLAY not set")
	}
	c22ReplayFile(t, "C22", path)
}

// c22ReplayFile is what `./check C22|C23 --replay <file>` runs (DESIGN M10): the recorded
// (minimised) query on freshly built shards holding the recorded writes, with the oracle's diff.
func c22ReplayFile(t *testing.T, prop, path string) {
	q, specs, err := c22LoadWitness(path)
	if err != nil {
		t.Fatal(err)
	}
	st, err := c22OpenStack(t.TempDir(), specs)
	if err != nil {
		t.Fatal(err)
	}
	defer st.Close()
	for si, s := range specs {
		fmt.Printf("shard %d [%d,%d) snap=%v reopen=%v\n", si, s.Lo, s.Hi, s.Snap, s.Reopen)
		for bi, b := range s.Batches {
			for _, w := range b {
				fmt.Printf("  batch %d: %s{%s} t=%d %v\n", bi, w.Meas, c22TagString(w.Tags), w.T, w.FStr)
			}
		}
	}
	if c22ReplayQ != nil {
		m := c22NewModel()
		for _, s := range specs {
			for _, b := range s.Batches {
				for _, w := range b {
					m.Put(w)
				}
			}
		}
		cl, d, exp := c22Check(st, m, c22ReplayQ)
		fmt.Printf("REFERENCE for %s\n  ambiguous=%q class=%q\n  %s\n", c22ReplayQ.String(), exp.Ambiguous, cl, d)
		if cl != "" {
			fmt.Printf("VIOLATION property=%s replay=%s\n  class=%s (replayed)\n", prop, path, cl)
			defer t.Fatalf("replayed witness still disagrees: %s", cl)
		} else {
			fmt.Printf("replay: engine and reference agree on the recorded case\n")
		}
		for _, s := range exp.Series {
			fmt.Printf("  want %s{%s} optional=%v %s\n", s.Name, c22TagString(s.Tags), s.Optional, c22FmtGroups(s.Groups))
		}
	}
	qs := []string{q}
	if x := os.Getenv("C22_Q"); x != "" {
		qs = append(qs, strings.Split(x, ";")...)
	}
	for _, q := range qs {
		fmt.Println("QUERY:", q)
		out, err := st.c22Run(q)
		if err != nil {
			fmt.Println("  error:", err)
			continue
		}
		for _, s := range out {
			fmt.Printf("  %s{%s} %v\n", s.Name, c22TagString(s.Tags), s.Columns)
			fmt.Printf("    %s\n", c22FmtRows(s.Rows))
		}
	}
}
