package g_query

import (
	"fmt"
	"math"
)

// c22Diff compares the emitted series with the reference; "" = equal. class names the kind of
// disagreement (columns / series_set / series_order / row_count / row_value / row_time).
func c22Diff(q *c22Query, exp *c22Expect, got []c22OutSeries) (class, detail string) {
	// optional series that the engine did not emit are dropped from the expectation
	hasOpt := false
	for _, s := range exp.Series {
		if s.Optional {
			hasOpt = true
		}
	}
	if hasOpt {
		gotKeys := map[string]bool{}
		for _, g := range got {
			gotKeys[g.Name+"|"+c22TagString(g.Tags)] = true
		}
		keep := func(in []c22ExpSeries) []c22ExpSeries {
			var out []c22ExpSeries
			for _, s := range in {
				if s.Optional && !gotKeys[s.Name+"|"+c22TagString(s.Tags)] {
					continue
				}
				out = append(out, s)
			}
			return out
		}
		e2 := *exp
		e2.Series, e2.AllSeries = keep(exp.Series), keep(exp.AllSeries)
		exp = &e2
	}
	weakN := exp.WeakSeriesOrder && (q.SLimit > 0 || q.SOff > 0)
	if weakN && q.SLimit > 0 && len(got) > q.SLimit {
		return "series_count", fmt.Sprintf("SLIMIT %d but %d series returned %s", q.SLimit, len(got), c22GotSeriesNames(got))
	}
	if !weakN && len(got) != len(exp.Series) {
		return "series_count", fmt.Sprintf("want %d series %s, got %d %s", len(exp.Series), c22ExpSeriesNames(exp.Series), len(got), c22GotSeriesNames(got))
	}
	series := exp.Series
	if q.Desc || exp.WeakSeriesOrder || q.UnorderedSeries {
		pool := exp.Series
		if exp.WeakSeriesOrder {
			pool = exp.AllSeries
		}
		exp = &c22Expect{Columns: exp.Columns, Series: pool}
		// The order of series under ORDER BY time DESC is not documented (the engine reverses it):
		// compared as a set keyed by (name, tags).
		byKey := map[string]int{}
		for i, x := range exp.Series {
			byKey[x.Name+"|"+c22TagString(x.Tags)] = i
		}
		used := map[int]bool{}
		var re []c22ExpSeries
		for _, g := range got {
			i, ok := byKey[g.Name+"|"+c22TagString(g.Tags)]
			if !ok || used[i] {
				return "series_set", fmt.Sprintf("unexpected or repeated series %s{%s}; want %s got %s", g.Name, c22TagString(g.Tags), c22ExpSeriesNames(exp.Series), c22GotSeriesNames(got))
			}
			used[i] = true
			re = append(re, exp.Series[i])
		}
		series = re
	}
	for i := range got {
		e, g := series[i], got[i]
		if fmt.Sprint(g.Columns) != fmt.Sprint(exp.Columns) {
			return "columns", fmt.Sprintf("series %d: want columns %v got %v", i, exp.Columns, g.Columns)
		}
		if g.Name != e.Name || c22TagString(g.Tags) != c22TagString(e.Tags) {
			// same set in another order, or another set?
			cls := "series_set"
			seen := map[string]int{}
			for _, x := range exp.Series {
				seen[x.Name+"|"+c22TagString(x.Tags)]++
			}
			all := true
			for _, x := range got {
				k := x.Name + "|" + c22TagString(x.Tags)
				seen[k]--
				if seen[k] < 0 {
					all = false
				}
			}
			if all {
				cls = "series_order"
			}
			return cls, fmt.Sprintf("series %d: want %s{%s} got %s{%s}; want %s got %s", i, e.Name, c22TagString(e.Tags), g.Name, c22TagString(g.Tags), c22ExpSeriesNames(exp.Series), c22GotSeriesNames(got))
		}
		if e.Verify != nil {
			if d := e.Verify(g.Rows); d != "" {
				return "row_value", fmt.Sprintf("series %d {%s}: %s", i, c22TagString(e.Tags), d)
			}
			continue
		}
		if c, d := c22DiffRows(q, e, g.Rows); c != "" {
			return c, fmt.Sprintf("series %d %s{%s}: %s\n   want %s\n   got  %s", i, e.Name, c22TagString(e.Tags), d, c22FmtGroups(e.Groups), c22FmtRows(g.Rows))
		}
	}
	return "", ""
}

func c22ExpSeriesNames(s []c22ExpSeries) string {
	out := "["
	for _, x := range s {
		out += x.Name + "{" + c22TagString(x.Tags) + "} "
	}
	return out + "]"
}

func c22GotSeriesNames(s []c22OutSeries) string {
	out := "["
	for _, x := range s {
		out += x.Name + "{" + c22TagString(x.Tags) + "} "
	}
	return out + "]"
}

func c22FmtRows(rs []c22OutRow) string {
	s := "["
	for i, r := range rs {
		if i >= 40 {
			s += fmt.Sprintf(" …+%d", len(rs)-i)
			break
		}
		s += " " + r.String()
	}
	return s + " ]"
}

func c22FmtGroups(gs [][]c22ExpRow) string {
	s := "["
	n := 0
	for _, g := range gs {
		if n >= 40 {
			s += " …"
			break
		}
		if len(g) > 1 {
			s += " {"
		}
		for _, r := range g {
			n++
			s += " " + c22FmtExpRow(r)
		}
		if len(g) > 1 {
			s += " }"
		}
	}
	return s + " ]"
}

func c22FmtExpRow(r c22ExpRow) string {
	s := ""
	if len(r.TAlts) == 1 {
		s = fmt.Sprint(r.TAlts[0])
	} else {
		s = fmt.Sprint(r.TAlts)
	}
	if r.Optional {
		s += "?"
	}
	s += ":"
	for i, c := range r.Cells {
		if i > 0 {
			s += ","
		}
		if len(c.Alts) == 1 {
			s += c.Alts[0].String()
		} else {
			s += "any("
			for j, a := range c.Alts {
				if j > 0 {
					s += "|"
				}
				s += a.String()
			}
			s += ")"
		}
		if c.Approx {
			s += "~"
		}
		if c.Slack1 {
			s += fmt.Sprintf("±1(%v)", c.Exact)
		}
		if c.Range {
			s += fmt.Sprintf("[%v..%v]", c.Lo, c.Hi)
		}
	}
	return s
}

// c22CellMatch: exact by default (floats: same value, NaN equals NaN, signed zeros equal);
// Approx: relative tolerance 1e-12 — used only where the result is a chain of floating point
// operations whose order the documentation does not fix (linear interpolation, stddev): two
// algebraically equal evaluation orders differ by a few ulp (2^-52 ≈ 2.2e-16 each), 1e-12
// allows for ~4000 such roundings and is ten orders of magnitude below any semantic error on
// the small dyadic inputs used here.
func c22CellMatch(e c22ExpCell, g c22Cell) bool {
	if e.Range {
		if g.K != e.RK {
			return false
		}
		x := g.F
		slack := 1e-12 * math.Max(math.Abs(e.Lo), math.Abs(e.Hi))
		if g.K == 'i' {
			x = float64(g.I)
			slack = 1
		}
		return x > e.Lo-slack-1e-300 && x < e.Hi+slack+1e-300
	}
	for _, a := range e.Alts {
		if c22OneMatch(e, a, g) {
			return true
		}
	}
	return false
}

func c22OneMatch(e c22ExpCell, a, g c22Cell) bool {
	if e.Slack1 {
		return g.K == 'i' && math.Abs(float64(g.I)-e.Exact) < 1
	}
	if e.NumEq && a.K != 0 && g.K != 0 {
		x, y := a.F, g.F
		if a.K == 'i' {
			x = float64(a.I)
		}
		if g.K == 'i' {
			y = float64(g.I)
		}
		if (a.K == 'i' || a.K == 'f') && (g.K == 'i' || g.K == 'f') {
			return x == y
		}
	}
	if a.K != g.K {
		return false
	}
	switch a.K {
	case 0:
		return true
	case 'i':
		return a.I == g.I
	case 'u':
		return a.U == g.U
	case 's':
		return a.S == g.S
	case 'b':
		return a.B == g.B
	case 'f':
		if math.IsNaN(a.F) || math.IsNaN(g.F) {
			return math.IsNaN(a.F) && math.IsNaN(g.F)
		}
		if a.F == g.F {
			return true
		}
		if e.Approx {
			d := math.Abs(a.F - g.F)
			m := math.Max(math.Abs(a.F), math.Abs(g.F))
			// a result near 0 out of a running sum (moving_average adds the new and subtracts the
			// old value) keeps the rounding error of its operands, which are O(1..100) here: the
			// relative bound alone would demand exact cancellation
			return d <= 1e-12*m || d <= 1e-10
		}
		return false
	}
	return false
}

func c22RowMatch(e c22ExpRow, g c22OutRow) bool {
	okT := false
	for _, t := range e.TAlts {
		if t == g.T {
			okT = true
		}
	}
	if !okT || len(e.Cells) != len(g.Cells) {
		return false
	}
	for i := range e.Cells {
		if !c22CellMatch(e.Cells[i], g.Cells[i]) {
			return false
		}
	}
	return true
}

// c22MatchSubset: can every got row be matched to a distinct expected row of the group
// (bipartite matching by augmenting paths)?
func c22MatchSubset(exp []c22ExpRow, got []c22OutRow) bool {
	matchE := make([]int, len(exp))
	for i := range matchE {
		matchE[i] = -1
	}
	var try func(g int, seen []bool) bool
	try = func(g int, seen []bool) bool {
		for e := range exp {
			if seen[e] || !c22RowMatch(exp[e], got[g]) {
				continue
			}
			seen[e] = true
			if matchE[e] < 0 || try(matchE[e], seen) {
				matchE[e] = g
				return true
			}
		}
		return false
	}
	for g := range got {
		if !try(g, make([]bool, len(exp))) {
			return false
		}
	}
	return true
}

// c22DiffRows applies OFFSET/LIMIT to the ordered expected groups and compares. A group cut
// by the slice boundary may contribute any of its rows (order among equal timestamps is
// unspecified).
func c22DiffRows(q *c22Query, e c22ExpSeries, got []c22OutRow) (class, detail string) {
	hasOpt := false
	total := 0
	for _, g := range e.Groups {
		total += len(g)
		for _, r := range g {
			if r.Optional {
				hasOpt = true
			}
		}
	}
	if hasOpt {
		// only generated without LIMIT/OFFSET and as single-row groups
		gi := 0
		for _, g := range e.Groups {
			r := g[0]
			if gi < len(got) && c22RowMatch(r, got[gi]) {
				gi++
				continue
			}
			if r.Optional {
				continue
			}
			return "row_value", fmt.Sprintf("expected row %s not found at position %d", c22FmtExpRow(r), gi)
		}
		if gi != len(got) {
			return "row_count", fmt.Sprintf("%d unexpected trailing rows", len(got)-gi)
		}
		return "", ""
	}
	lo := q.Off
	if lo > total {
		lo = total
	}
	hi := total
	if q.Limit > 0 && lo+q.Limit < hi {
		hi = lo + q.Limit
	}
	if len(got) != hi-lo {
		return "row_count", fmt.Sprintf("want %d rows (total %d, offset %d, limit %d), got %d", hi-lo, total, q.Off, q.Limit, len(got))
	}
	pos := 0 // index of the first row of the current group in the unsliced order
	gi := 0
	for _, g := range e.Groups {
		s, t := pos, pos+len(g)
		pos = t
		if t <= lo || s >= hi {
			continue
		}
		a, b := s, t
		if a < lo {
			a = lo
		}
		if b > hi {
			b = hi
		}
		m := b - a
		part := got[gi : gi+m]
		if !c22MatchSubset(g, part) {
			cls := "row_value"
			// time or value?
			for _, r := range part {
				okT := false
				for _, er := range g {
					for _, tt := range er.TAlts {
						if tt == r.T {
							okT = true
						}
					}
				}
				if !okT {
					cls = "row_time"
				}
			}
			return cls, fmt.Sprintf("rows %d..%d do not match expected group %s", gi, gi+m-1, c22FmtGroups([][]c22ExpRow{g}))
		}
		gi += m
	}
	return "", ""
}

func c22CountRows(exp *c22Expect) int {
	n := 0
	for _, s := range exp.Series {
		for _, g := range s.Groups {
			n += len(g)
		}
	}
	return n
}
