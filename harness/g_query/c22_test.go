package g_query

import (
	"fmt"
	"os"
	"runtime/debug"
	"testing"
	"time"

	"verifharness/vkit"
)

// c22Witness is what a violation records.
type c22Witness struct {
	Query     string       `json:"query"`
	MinQuery  string       `json:"minimised_query,omitempty"`
	Class     string       `json:"class"`
	Diff      string       `json:"diff"`
	MinDiff   string       `json:"minimised_diff,omitempty"`
	Dataset   string       `json:"dataset"`
	DatasetNo int          `json:"dataset_no"`
	QueryNo   int          `json:"query_no"`
	Shards    []c22WitSpec `json:"shards,omitempty"`
	Q         *c22Query    `json:"q,omitempty"` // the minimised query as a structure (for TestC22Replay)
}

type c22WitSpec struct {
	Lo, Hi  int64
	Batches [][]c22Write
	Snap    []bool
	Reopen  bool
}

func c22WitSpecs(specs []c22ShardSpec) []c22WitSpec {
	var out []c22WitSpec
	for _, s := range specs {
		out = append(out, c22WitSpec{s.Lo, s.Hi, s.Batches, s.Snap, s.Reopen})
	}
	return out
}

// c22Check runs one query on the stack and compares with the reference.
func c22Check(st *c22Stack, m *c22Model, q *c22Query) (class, detail string, exp *c22Expect) {
	class, detail, exp, _ = c22CheckG(st, m, q)
	return
}

func c22CheckG(st *c22Stack, m *c22Model, q *c22Query) (class, detail string, exp *c22Expect, got []c22OutSeries) {
	var err error
	q.StarDims = nil
	exp = m.Eval(q)
	if exp.Ambiguous != "" {
		return "", "", exp, nil
	}
	got, err = st.c22Run(q.String())
	if err == errC22Watchdog {
		exp.Ambiguous = "watchdog"
		return "", "", exp, nil
	}
	if err != nil {
		return "error", err.Error(), exp, nil
	}
	if q.GroupStar && len(got) > 0 {
		dims := []string{}
		for k := range got[0].Tags {
			dims = append(dims, k)
		}
		if d := m.c22StarDimsOK(q, dims); d != "" {
			return "star_dims", d, exp, got
		}
		q.StarDims = dims
		exp = m.Eval(q)
		if exp.Ambiguous != "" {
			return "", "", exp, nil
		}
	}
	class, detail = c22Diff(q, exp, got)
	if class == "" && q.SLimit > 0 && !q.Desc {
		class, detail = c22Pages(st, q, exp)
	}
	return class, detail, exp, got
}

// c22Pages: SLIMIT n SOFFSET 0,n,2n,… must enumerate every expected series exactly once
// (whatever order the engine slices), each page full except the last.
func c22Pages(st *c22Stack, q *c22Query, exp *c22Expect) (class, detail string) {
	// under GROUP BY * the expanded key set may differ between pages (it depends on the shards
	// selected); a series is identified by its non-empty tags
	norm := func(name string, tags map[string]string) string {
		t := map[string]string{}
		for k, v := range tags {
			if v != "" || !q.GroupStar {
				t[k] = v
			}
		}
		return name + "|" + c22TagString(t)
	}
	want := map[string]bool{}
	for _, s := range exp.AllSeries {
		want[norm(s.Name, s.Tags)] = true
	}
	seen := map[string]bool{}
	n := q.SLimit
	bound := len(want)
	if exp.WeakSeriesOrder {
		bound = exp.StoredSeries
	}
	for off := 0; off <= bound+n; off += n {
		c := *q
		c.SOff = off
		got, err := st.c22Run(c.String())
		if err != nil {
			return "error", err.Error()
		}
		wantN := len(want) - off
		if wantN > n {
			wantN = n
		}
		if wantN < 0 {
			wantN = 0
		}
		if (exp.WeakSeriesOrder && len(got) > n) || (!exp.WeakSeriesOrder && len(got) != wantN) {
			return "series_page", fmt.Sprintf("page SLIMIT %d SOFFSET %d has %d series %s, want %d of %d", n, off, len(got), c22GotSeriesNames(got), wantN, len(want))
		}
		for _, g := range got {
			k := norm(g.Name, g.Tags)
			if !want[k] || seen[k] {
				return "series_page", fmt.Sprintf("page SLIMIT %d SOFFSET %d returns unexpected or repeated series %s", n, off, k)
			}
			seen[k] = true
		}
	}
	if len(seen) != len(want) {
		return "series_page", fmt.Sprintf("pages cover %d of %d series", len(seen), len(want))
	}
	return "", ""
}

// c22MinimiseQuery drops clauses while the same class of disagreement persists.
func c22MinimiseQuery(st *c22Stack, m *c22Model, q *c22Query, class string) *c22Query {
	cur := *q
	still := func(c *c22Query) bool {
		cl, _, e := c22Check(st, m, c)
		return e.Ambiguous == "" && cl == class
	}
	for changed := true; changed; {
		changed = false
		try := func(mut func(c *c22Query)) {
			c := cur
			c.Cols = append([]c22Col(nil), cur.Cols...)
			c.GroupTags = append([]string(nil), cur.GroupTags...)
			c.Meas = append([]string(nil), cur.Meas...)
			before := c.String()
			mut(&c)
			if len(c.Cols) == 0 || len(c.Meas) == 0 || c.String() == before {
				return
			}
			if still(&c) {
				cur = c
				changed = true
			}
		}
		try(func(c *c22Query) { c.Cond = nil })
		if cur.Cond != nil && cur.Cond.L != nil {
			try(func(c *c22Query) { c.Cond = cur.Cond.L })
			try(func(c *c22Query) { c.Cond = cur.Cond.R })
		}
		try(func(c *c22Query) { c.SLimit, c.SOff = 0, 0 })
		try(func(c *c22Query) { c.SOff = 0 })
		try(func(c *c22Query) { c.Limit, c.Off = 0, 0 })
		try(func(c *c22Query) { c.Off = 0 })
		try(func(c *c22Query) { c.Desc = false })
		try(func(c *c22Query) { c.Fill = 0 })
		try(func(c *c22Query) { c.Offset = 0 })
		try(func(c *c22Query) { c.GroupStar = false })
		try(func(c *c22Query) { c.GroupTags = nil })
		if len(cur.GroupTags) > 1 {
			try(func(c *c22Query) { c.GroupTags = c.GroupTags[1:] })
			try(func(c *c22Query) { c.GroupTags = c.GroupTags[:len(c.GroupTags)-1] })
		}
		if len(cur.Meas) > 1 {
			try(func(c *c22Query) { c.Meas = c.Meas[:1] })
			try(func(c *c22Query) { c.Meas = c.Meas[1:] })
		}
		if len(cur.Cols) > 1 {
			try(func(c *c22Query) { c.Cols = c.Cols[1:] })
			try(func(c *c22Query) { c.Cols = c.Cols[:len(c.Cols)-1] })
		}
		try(func(c *c22Query) { c.LoExcl, c.HiIncl, c.TimeStyle = false, false, 0 })
		try(func(c *c22Query) {
			for i := range c.Cols {
				c.Cols[i].Alias = ""
			}
		})
	}
	return &cur
}

// c22MinimiseData removes written points (delta debugging on the flattened write list) while
// the disagreement persists; every attempt rebuilds real shards.
func c22MinimiseData(q *c22Query, specs []c22ShardSpec, class string, budget int) []c22ShardSpec {
	type ref struct{ s, b, i int }
	flat := func(sp []c22ShardSpec) []ref {
		var out []ref
		for s := range sp {
			for b := range sp[s].Batches {
				for i := range sp[s].Batches[b] {
					out = append(out, ref{s, b, i})
				}
			}
		}
		return out
	}
	without := func(sp []c22ShardSpec, drop map[ref]bool) []c22ShardSpec {
		out := make([]c22ShardSpec, len(sp))
		for s := range sp {
			out[s] = c22ShardSpec{Lo: sp[s].Lo, Hi: sp[s].Hi, Snap: sp[s].Snap, Reopen: sp[s].Reopen, Batches: make([][]c22Write, len(sp[s].Batches))}
			for b := range sp[s].Batches {
				for i, w := range sp[s].Batches[b] {
					if !drop[ref{s, b, i}] {
						out[s].Batches[b] = append(out[s].Batches[b], w)
					}
				}
			}
		}
		return out
	}
	test := func(sp []c22ShardSpec) bool {
		dir, err := os.MkdirTemp("", "c22min")
		if err != nil {
			return false
		}
		st, err := c22OpenStack(dir, sp)
		if err != nil {
			os.RemoveAll(dir)
			return false
		}
		defer st.Close()
		m := c22NewModel()
		for _, s := range sp {
			for _, b := range s.Batches {
				for _, w := range b {
					m.Put(w)
				}
			}
		}
		cl, _, e := c22Check(st, m, q)
		return e.Ambiguous == "" && cl == class
	}
	cur := specs
	chunk := len(flat(cur)) / 2
	fired := c22WatchdogFired
	for chunk >= 1 && budget > 0 && c22WatchdogFired == fired {
		refs := flat(cur)
		progressed := false
		for start := 0; start < len(refs) && budget > 0 && c22WatchdogFired == fired; start += chunk {
			drop := map[ref]bool{}
			for k := start; k < start+chunk && k < len(refs); k++ {
				drop[refs[k]] = true
			}
			cand := without(cur, drop)
			budget--
			if test(cand) {
				cur = cand
				progressed = true
				break
			}
		}
		if !progressed {
			chunk /= 2
		} else if n := len(flat(cur)); chunk > n/2 && n > 1 {
			chunk = n / 2
		}
	}
	return cur
}

// c22OneShard: the same writes in the same order, all in a single shard.
func c22OneShard(specs []c22ShardSpec) []c22ShardSpec {
	one := c22ShardSpec{Lo: specs[0].Lo, Hi: specs[len(specs)-1].Hi}
	for _, s := range specs {
		one.Batches = append(one.Batches, s.Batches...)
		one.Snap = append(one.Snap, s.Snap...)
		one.Reopen = one.Reopen || s.Reopen
	}
	return []c22ShardSpec{one}
}

// c22HoldsOnOneShard re-runs the query with the identical data stored in one shard: a
// disagreement that disappears there is caused by the shard layout (observed, not inferred).
func c22HoldsOnOneShard(q *c22Query, specs []c22ShardSpec) bool {
	dir, err := os.MkdirTemp("", "c22one")
	if err != nil {
		return false
	}
	one := c22OneShard(specs)
	st, err := c22OpenStack(dir, one)
	if err != nil {
		os.RemoveAll(dir)
		return false
	}
	defer st.Close()
	m := c22NewModel()
	for _, b := range one[0].Batches {
		for _, w := range b {
			m.Put(w)
		}
	}
	cl, _, e := c22Check(st, m, q)
	return e.Ambiguous == "" && cl == ""
}

// c22CondFieldMissingInSomeShard: the WHERE clause compares a field that some shard holding
// points of a queried measurement has no value of.
func c22CondFieldMissingInSomeShard(q *c22Query, specs []c22ShardSpec) bool {
	var fields []string
	var walk func(c *c22Cond)
	walk = func(c *c22Cond) {
		if c == nil {
			return
		}
		if c.Op == "field" {
			fields = append(fields, c.Key)
		}
		walk(c.L)
		walk(c.R)
	}
	walk(q.Cond)
	for _, f := range fields {
		for _, me := range q.Meas {
			for _, s := range specs {
				hasMeas, hasField := false, false
				for _, b := range s.Batches {
					for _, w := range b {
						if w.Meas == me {
							hasMeas = true
							if _, ok := w.Fields[f]; ok {
								hasField = true
							}
						}
					}
				}
				if hasMeas && !hasField {
					return true
				}
			}
		}
	}
	return false
}

// c22Shift moves every stored timestamp and shard boundary by k ns.
func c22Shift(specs []c22ShardSpec, k int64) []c22ShardSpec {
	out := make([]c22ShardSpec, len(specs))
	for i, s := range specs {
		out[i] = c22ShardSpec{Lo: s.Lo + k, Hi: s.Hi + k, Snap: s.Snap, Reopen: s.Reopen}
		for _, b := range s.Batches {
			var nb []c22Write
			for _, w := range b {
				w.T += k
				nb = append(nb, w)
			}
			out[i].Batches = append(out[i].Batches, nb)
		}
	}
	return out
}

// c22HoldsShifted re-runs the query with all data and both time bounds moved by a multiple of
// the GROUP BY interval so that every timestamp is positive: a disagreement that disappears
// is caused by negative (pre-1970) times.
func c22HoldsShifted(q *c22Query, specs []c22ShardSpec) bool {
	if q.Interval == 0 {
		return false
	}
	k := (1001*c22U/q.Interval + 1) * q.Interval
	sh := c22Shift(specs, k)
	dir, err := os.MkdirTemp("", "c22shift")
	if err != nil {
		return false
	}
	st, err := c22OpenStack(dir, sh)
	if err != nil {
		os.RemoveAll(dir)
		return false
	}
	defer st.Close()
	m := c22NewModel()
	for _, s := range sh {
		for _, b := range s.Batches {
			for _, w := range b {
				m.Put(w)
			}
		}
	}
	c := *q
	c.TLo += k
	c.THi += k
	cl, _, e := c22Check(st, m, &c)
	return e.Ambiguous == "" && cl == ""
}

var c22MinCount = map[string]int{}
var c22Reported int
var c22LooseLines int

func c22Report(r *vkit.Run, st *c22Stack, ds *c22Dataset, q *c22Query, dsNo, qNo int, class, detail string, extraFeat map[string]string) {
	w := c22Witness{Query: q.String(), Class: class, Diff: detail, Dataset: ds.Describe, DatasetNo: dsNo, QueryNo: qNo}
	mq := q
	if class != "error" || true {
		// query minimisation is cheap (same shards); after a dozen violations only classify
		mq = c22MinimiseQuery(st, ds.Model, q, class)
		c22Reported++
		w.MinQuery = mq.String()
		w.Shards = c22WitSpecs(ds.Specs)
		if c22MinCount[class] < 1 && c22WatchdogFired == 0 {
			c22MinCount[class]++
			ms := c22MinimiseData(mq, ds.Specs, class, 60)
			w.Shards = c22WitSpecs(ms)
			// diff on the minimised pair
			if dir, err := os.MkdirTemp("", "c22w"); err == nil {
				if st2, err := c22OpenStack(dir, ms); err == nil {
					m := c22NewModel()
					for _, s := range ms {
						for _, b := range s.Batches {
							for _, x := range b {
								m.Put(x)
							}
						}
					}
					_, d, _ := c22Check(st2, m, mq)
					w.MinDiff = d
					st2.Close()
				} else {
					os.RemoveAll(dir)
				}
			}
		}
	}
	w.Q = mq
	feat := mq.features()
	if (mq.SLimit > 0 || mq.SOff > 0) && len(ds.Specs) > 1 && c22HoldsOnOneShard(mq, ds.Specs) {
		feat["observed"] = class
		class = "slimit_depends_on_shard_layout"
		w.Class = class
	}
	if class != "error" && class != "slimit_depends_on_shard_layout" && len(ds.Specs) > 1 && c22CondFieldMissingInSomeShard(mq, ds.Specs) && c22HoldsOnOneShard(mq, ds.Specs) {
		// a WHERE comparison on a field that one shard of the measurement has never seen is read
		// as a tag comparison in that shard (absent tag = ""), as a field comparison elsewhere
		feat["observed"] = class
		class = "where_field_unknown_to_a_shard_read_as_tag"
		w.Class = class
	}
	if mq.Fill == 'l' && mq.TLo < 0 && class == "row_value" && c22HoldsShifted(mq, ds.Specs) {
		feat["observed"] = class
		class = "fill_linear_negative_time"
		w.Class = class
	}
	if class != "error" && class != "slimit_depends_on_shard_layout" && mq.Fill == 'x' && mq.Limit > 0 && len(mq.Cols) > 1 {
		// every column alone agrees with the reference, only the joint LIMIT/OFFSET result differs
		alone := true
		for i := range mq.Cols {
			c := *mq
			c.Cols = []c22Col{mq.Cols[i]}
			if cl, _, e := c22Check(st, ds.Model, &c); cl != "" || e.Ambiguous != "" {
				alone = false
			}
		}
		if alone {
			feat["observed"] = class
			class = "limit_per_column_with_fill_none"
			w.Class = class
		}
	}
	// percentile: the same statement with rank 100 (defined for every non-empty window) agrees
	// with the reference, i.e. the disagreement needs a window/series without a percentile value
	if mq.Cols[0].Func == "percentile" && mq.Cols[0].P10 != 1000 && class != "error" {
		c := *mq
		c.Cols = append([]c22Col(nil), mq.Cols...)
		c.Cols[0].P10 = 1000
		if cl, _, e := c22Check(st, ds.Model, &c); cl == "" && e.Ambiguous == "" {
			if _, _, e2 := c22Check(st, ds.Model, mq); e2.Notes["percentile_undefined_for_some_window"] == "true" {
				feat["observed"] = class
				class = "percentile_undefined_window_ends_result"
				w.Class = class
			}
		}
	}
	// integral: exactly the series whose last input point is at timestamp 0 are missing
	if mq.Cols[0].Func == "integral" && class == "series_count" {
		if _, _, e, got := c22CheckG(st, ds.Model, mq); e != nil && e.Ambiguous == "" {
			have := map[string]bool{}
			for _, g := range got {
				have[g.Name+"|"+c22TagString(g.Tags)] = true
			}
			only := len(e.Series) > 0
			for _, sr := range e.Series {
				present := have[sr.Name+"|"+c22TagString(sr.Tags)]
				if sr.Optional {
					continue
				}
				if present == sr.EndsAtEpoch {
					only = false
				}
			}
			if only {
				feat["observed"] = class
				class = "integral_series_ending_at_epoch_dropped"
				w.Class = class
			}
		}
	}
	for k, v := range extraFeat {
		feat[k] = v
	}
	if _, _, e := c22Check(st, ds.Model, mq); e != nil {
		for k, v := range e.Notes {
			feat[k] = v
		}
	}
	r.Event("violation_class:"+class, 1)
	if feat["observed"] == "" && r.Violations() >= 20 && c22LooseLines < 40 {
		// vkit stops writing witnesses after 20; a violation that no diagnosis explained must
		// still be visible in the log
		c22LooseLines++
		fmt.Printf("UNCLASSIFIED-VIOLATION class=%s dataset=%d query=%d\n  %s\n  %s\n", class, dsNo, qNo, mq.String(), detail)
	}
	r.Violation(class, feat, w)
}

// c22PanicGuard prints a harness panic before vkit's deferred Finish can replace it by a
// Goexit (t.Fatalf inside a deferred call during panicking hides the panic message).
func c22PanicGuard(t *testing.T) {
	if p := recover(); p != nil {
		fmt.Printf("HARNESS-PANIC: %v\n%s\n", p, debug.Stack())
		panic(p)
	}
}

func TestC22(t *testing.T) {
	if p := os.Getenv("VERIF_REPLAY"); p != "" {
		c22ReplayFile(t, "C22", p)
		return
	}
	r := vkit.Start(t, "C22", "exploration")
	defer r.Finish()
	defer c22PanicGuard(t)
	r.Rule("case = (dataset, query): dataset = 2 measurements × 3–9 series (2–3 tag keys, sparse tag t2) × 1–3 typed fields on a 1 s grid with negative timestamps, stored in 1–3 real shards with TSM snapshots, cache-resident batches, overwrites and optional reopen; query drawn from the C22 grammar (raw | count/sum/mean/min/max/first/last; WHERE time+tags+fields; GROUP BY time(i[,off]) / tags / *; fill; ORDER BY time DESC; LIMIT/OFFSET/SLIMIT/SOFFSET) and executed by query.Select over coordinator.LocalShardMapper, rows via query.Emitter(chunk 0); compared with the independent reference evaluator. non-trivial = the reference result has ≥ 1 row; distinct = hash of (dataset description, query text)")
	r.Trust("github.com/influxdata/influxql parser (statement text → AST)", "vkit/sk shard opener")
	var reportDur time.Duration
	nDS := r.N(90, 3000)
	perDS := r.N(30, 40)
	excluded := []string{
		"transformations (C23) and any function outside count/sum/mean/min/max/first/last",
		"now()-relative or unbounded time ranges (every query has both bounds)",
		"fill(linear)/fill(<number>) on string/boolean result columns (documentation defines them for numbers only)",
		"duplicate output column names without alias (naming of duplicates is not part of the documented semantics)",
		"regular-expression conditions on tags that some series lack",
		"OFFSET without LIMIT and SOFFSET without SLIMIT (documentation: 'requires a LIMIT/SLIMIT clause ... can cause inconsistent query results')",
		"value of a call column for an output series that has no value of that field at all while another column has: null or the documented fill value/count 0 both accepted",
		"fill(previous) together with ORDER BY time DESC ('previous' chronological or in output order)",
		"SLIMIT/SOFFSET: over several measurements, with ORDER BY time DESC, or combined with a series emptied by OFFSET; which series are counted when some are emptied by the time range or a field condition, and where a series lacking a GROUP BY tag sorts (then only membership, per-series rows and exhaustive pagination are checked)",
		"order of output series under ORDER BY time DESC (compared as a set)",
		"the same call twice in one SELECT",
		"subqueries, math on columns, selectors with auxiliary fields, INTO, time zone clause",
	}
	for di := 0; di < nDS; di++ {
		if c22WatchdogFired >= 3 {
			r.Inconclusive("gave up after 3 statements hung inside the engine")
			break
		}
		rg := r.Rand(di)
		ds := c22GenDataset(rg, c22DSOpts{})
		dir, err := os.MkdirTemp("", "c22")
		if err != nil {
			t.Fatal(err)
		}
		st, err := c22OpenStack(dir, ds.Specs)
		if err != nil {
			t.Fatalf("dataset %d: %v", di, err)
		}
		r.Event("datasets", 1)
		r.Event(fmt.Sprintf("datasets_%d_shards", len(ds.Specs)), 1)
		r.Event("points_written", int64(ds.NPoints+ds.Overwr))
		r.Event("points_overwritten", int64(ds.Overwr))
		r.Event("points_newest_in_tsm", int64(ds.NTSM))
		r.Event("points_newest_in_cache", int64(ds.NCache))
		for qi := 0; qi < perDS; qi++ {
			qr := r.SubRand("q", di*1000+qi)
			var q *c22Query
			if qr.Chance(2, 5) {
				q = c22GenRaw(qr, ds)
			} else {
				q = c22GenAgg(qr, ds)
			}
			class, detail, exp := c22Check(st, ds.Model, q)
			if exp.Ambiguous == "watchdog" {
				r.Inconclusive("query watchdog fired: " + q.String())
				break
			}
			if exp.Ambiguous != "" {
				r.Event("skipped_ambiguous", 1)
				continue
			}
			rows := c22CountRows(exp)
			r.Case(ds.Describe+"|"+q.String(), rows >= 1)
			r.Event("queries", 1)
			r.Event("query_kind_"+q.features()["kind"], 1)
			r.Event("rows_compared", int64(rows))
			r.Event("series_compared", int64(len(exp.Series)))
			if q.Interval != 0 {
				r.Event("fill_"+q.features()["fill"], 1)
			}
			if rows >= 2 && r.WantSample() && qi%7 == 3 {
				r.Sample(map[string]any{"dataset": ds.Describe, "query": q.String(), "expected_series": len(exp.Series), "expected_rows": rows})
			}
			if class != "" {
				t0 := time.Now()
				c22Report(r, st, ds, q, di, qi, class, detail, nil)
				reportDur += time.Since(t0)
			}
		}
		st.Close()
	}
	r.Extra("excluded", excluded)
	if c22WatchdogFired >= 3 {
		// most of the budget was not evaluated: never report that as "held"
		fmt.Printf("INCONCLUSIVE property=C22 gave up after %d statements hung inside the engine (see evidence.inconclusive)\n", c22WatchdogFired)
		defer t.Fatalf("INCONCLUSIVE")
	}
	r.Extra("seconds_spent_minimising_and_classifying_violations", reportDur.Seconds())
}
