package g_query

import (
	"fmt"
	"os"
	"testing"

	"verifharness/vkit/sk"
)

// TestC22FindingWitnesses rebuilds the hand-minimised witnesses of the findings write-ups
// (/verif/findings/C22-*.md, C23-*.md) on real shards and prints what the engine returns.
// C22_WITNESS=1 go test -tags verif -run TestC22FindingWitnesses -v ./g_query
func TestC22FindingWitnesses(t *testing.T) {
	if os.Getenv("C22_WITNESS") == "" {
		t.Skip("C22_WITNESS not set")
	}
	w := func(m string, tags map[string]string, ts int64, f map[string]sk.Val) c22Write {
		return c22Write{Meas: m, Tags: tags, T: ts * c22U, Fields: f}.withStr()
	}
	fv := func(v float64) map[string]sk.Val { return map[string]sk.Val{"f": sk.FloatVal(v)} }
	one := func(ws ...c22Write) []c22ShardSpec {
		return []c22ShardSpec{{Lo: -1000 * c22U, Hi: 1000 * c22U, Batches: [][]c22Write{ws}, Snap: []bool{true}}}
	}
	cases := []struct {
		name  string
		specs []c22ShardSpec
		qs    []string
	}{
		{"fill(linear) across the epoch with a GROUP BY time offset",
			one(w("m", nil, -3, fv(0)), w("m", nil, 3, fv(6))),
			[]string{`SELECT mean(f) FROM m WHERE time >= -4s AND time < 4s GROUP BY time(2s, 1s) fill(linear)`,
				`SELECT mean(f) FROM m WHERE time >= -4s AND time < 4s GROUP BY time(2s) fill(linear)`}},
		{"SLIMIT/SOFFSET applied per shard",
			[]c22ShardSpec{
				{Lo: -1000 * c22U, Hi: 10 * c22U, Batches: [][]c22Write{{w("m", map[string]string{"t": "a"}, 1, fv(1)), w("m", map[string]string{"t": "b"}, 1, fv(2))}}, Snap: []bool{true}},
				{Lo: 10 * c22U, Hi: 1000 * c22U, Batches: [][]c22Write{{w("m", map[string]string{"t": "b"}, 11, fv(3))}}, Snap: []bool{true}},
			},
			[]string{`SELECT count(f) FROM m WHERE time >= 0 AND time < 20s GROUP BY t`,
				`SELECT count(f) FROM m WHERE time >= 0 AND time < 20s GROUP BY t SLIMIT 1`,
				`SELECT count(f) FROM m WHERE time >= 0 AND time < 20s GROUP BY t SLIMIT 1 SOFFSET 1`,
				`SELECT f FROM m WHERE time >= 0 AND time < 20s GROUP BY t SLIMIT 1 SOFFSET 1`}},
		{"LIMIT applied per call with fill(none)",
			one(w("m", nil, 0, map[string]sk.Val{"f0": sk.IntVal(1), "f1": sk.IntVal(1)}), w("m", nil, 10, map[string]sk.Val{"f1": sk.IntVal(2)}), w("m", nil, 20, map[string]sk.Val{"f0": sk.IntVal(3), "f1": sk.IntVal(3)})),
			[]string{`SELECT first(f0), first(f1) FROM m WHERE time >= 0 AND time < 30s GROUP BY time(10s) fill(none)`,
				`SELECT first(f0), first(f1) FROM m WHERE time >= 0 AND time < 30s GROUP BY time(10s) fill(none) LIMIT 2`,
				`SELECT first(f0), first(f1) FROM m WHERE time >= 0 AND time < 30s GROUP BY time(10s) fill(none) LIMIT 1 OFFSET 1`}},
		{"percentile() ends the result at the first window without a value",
			one(w("m", map[string]string{"t": "a"}, 1, fv(9)), w("m", map[string]string{"t": "b"}, 11, fv(1)), w("m", map[string]string{"t": "b"}, 12, fv(2)), w("m", map[string]string{"t": "b"}, 13, fv(3))),
			[]string{`SELECT percentile(f, 20) FROM m WHERE time >= 0 AND time < 20s GROUP BY time(10s)`,
				`SELECT percentile(f, 20) FROM m WHERE time >= 10s AND time < 20s GROUP BY time(10s)`,
				`SELECT percentile(f, 20) FROM m WHERE time >= 0 AND time < 20s GROUP BY t`,
				`SELECT min(f) FROM m WHERE time >= 0 AND time < 20s GROUP BY t`}},
		{"integral() drops a series whose last point is at the epoch",
			one(w("m", nil, -2, fv(1)), w("m", nil, 0, fv(3))),
			[]string{`SELECT integral(f) FROM m WHERE time >= -10s AND time <= 0s`,
				`SELECT integral(f) FROM m WHERE time >= -10s AND time < 0s`,
				`SELECT f FROM m WHERE time >= -10s AND time <= 0s`}},
	}
	for _, c := range cases {
		fmt.Printf("### %s\n", c.name)
		st, err := c22OpenStack(t.TempDir(), c.specs)
		if err != nil {
			t.Fatal(err)
		}
		for si, s := range c.specs {
			for _, b := range s.Batches {
				for _, x := range b {
					fmt.Printf("  shard %d: %s,%s %v %ds\n", si, x.Meas, c22TagString(x.Tags), x.FStr, x.T/c22U)
				}
			}
		}
		for _, q := range c.qs {
			fmt.Println("  >", q)
			out, err := st.c22Run(q)
			if err != nil {
				fmt.Println("    error:", err)
				continue
			}
			if len(out) == 0 {
				fmt.Println("    (no series)")
			}
			for _, s := range out {
				fmt.Printf("    %s{%s} %v %s\n", s.Name, c22TagString(s.Tags), s.Columns, c22FmtRows(s.Rows))
			}
		}
		st.Close()
	}
}
