package g_query

import (
	"fmt"
	"os"
	"strings"
	"testing"

	"verifharness/vkit/sk"
)

func TestC22Smoke(t *testing.T) {
	mk := func(m string, tags map[string]string, ts int64, f map[string]sk.Val) c22Write {
		return c22Write{Meas: m, Tags: tags, T: ts, Fields: f}
	}
	specs := []c22ShardSpec{
		{Lo: -1000e9, Hi: 0, Batches: [][]c22Write{{
			mk("m0", map[string]string{"t0": "a"}, -20e9, map[string]sk.Val{"f0": sk.IntVal(1), "f1": sk.FloatVal(1.5)}),
			mk("m0", map[string]string{"t0": "b"}, -20e9, map[string]sk.Val{"f0": sk.IntVal(2)}),
			mk("m0", map[string]string{"t0": "a"}, -5e9, map[string]sk.Val{"f0": sk.IntVal(3), "fs": sk.StrVal("x")}),
		}}, Snap: []bool{true}},
		{Lo: 0, Hi: 1000e9, Batches: [][]c22Write{{
			mk("m0", map[string]string{"t0": "a"}, 0, map[string]sk.Val{"f0": sk.IntVal(4)}),
			mk("m0", map[string]string{"t0": "b"}, 15e9, map[string]sk.Val{"f0": sk.IntVal(5), "f1": sk.FloatVal(-2.25)}),
		}, {
			mk("m0", map[string]string{"t0": "a"}, 31e9, map[string]sk.Val{"f0": sk.IntVal(6)}),
		}}, Snap: []bool{true, false}},
	}
	st, err := c22OpenStack(t.TempDir(), specs)
	if err != nil {
		t.Fatal(err)
	}
	defer st.Close()
	qs := []string{}
	if x := os.Getenv("C22_Q"); x != "" {
		qs = strings.Split(x, ";")
	}
	for _, q := range append(qs, []string{
		`SELECT f0, f1, fs FROM m0 WHERE time >= -30s AND time < 40s`,
		`SELECT f0, t0 FROM m0 WHERE time >= -30000000000 AND time < 40000000000 ORDER BY time DESC LIMIT 3 OFFSET 1`,
		`SELECT count(f0), mean(f1), sum(f0) FROM m0 WHERE time >= -30s AND time < 40s GROUP BY time(10s, 3s), t0 fill(previous)`,
		`SELECT count(f0), mean(f1) FROM m0 WHERE time >= '1969-12-31T23:59:30Z' AND time < '1970-01-01T00:00:40Z' GROUP BY time(20s)`,
		`SELECT max(f0) FROM m0 WHERE time >= -30s AND time < 40s GROUP BY t0`,
		`SELECT derivative(f0, 2s) FROM m0 WHERE time >= -30s AND time < 40s GROUP BY *`,
	}...) {
		out, err := st.c22Run(q)
		if err != nil {
			t.Fatal(q, err)
		}
		if !testing.Verbose() {
			continue
		}
		fmt.Println(q)
		for _, s := range out {
			fmt.Printf("  %s {%s} %v\n", s.Name, c22TagString(s.Tags), s.Columns)
			for _, r := range s.Rows {
				fmt.Printf("    %s\n", r)
			}
		}
	}
}
