package g_query

import (
	"math"
	"testing"
	"time"

	"verifharness/vkit/sk"
)

// Table tests of the reference evaluator itself (hand-computed expectations; DESIGN §8).
func TestC22RefSelf(t *testing.T) {
	// window starts: floor toward -inf, offset modulo interval
	for _, c := range []struct{ t, iv, off, want int64 }{
		{0, 10, 0, 0}, {9, 10, 0, 0}, {10, 10, 0, 10}, {-1, 10, 0, -10}, {-10, 10, 0, -10}, {-11, 10, 0, -20},
		{-30, 10, 3, -37}, {-27, 10, 3, -27}, {2, 10, 3, -7}, {3, 10, 3, 3}, {3, 10, 13, 3}, {3, 10, -7, 3}, {-1, 2, 1, -1}, {0, 2, 1, -1}, {1, 2, 1, 1},
	} {
		if g := c22FloorWin(c.t, c.iv, c.off); g != c.want {
			t.Errorf("c22FloorWin(%d,%d,%d) = %d, want %d", c.t, c.iv, c.off, g, c.want)
		}
	}
	// RFC3339 rendering against the time package
	for _, ns := range []int64{0, 1, -1, -20e9, 15e9 + 5e8, -86400e9 - 1, 1600000000e9, -2208988800e9, 951782400e9 + 999999999} {
		want := time.Unix(0, ns).UTC().Format(time.RFC3339Nano)
		if g := c22RFC3339(ns); g != want {
			t.Errorf("c22RFC3339(%d) = %s, want %s", ns, g, want)
		}
	}
	m := c22NewModel()
	put := func(tag string, ts int64, f map[string]sk.Val) {
		m.Put(c22Write{Meas: "m", Tags: map[string]string{"t": tag}, T: ts * c22U, Fields: f})
	}
	iv := func(v int64) sk.Val { return sk.IntVal(v) }
	put("a", -20, map[string]sk.Val{"f0": iv(1), "f1": sk.FloatVal(1.5)})
	put("b", -20, map[string]sk.Val{"f0": iv(2)})
	put("a", -5, map[string]sk.Val{"f0": iv(3)})
	put("a", 0, map[string]sk.Val{"f0": iv(4)})
	put("b", 15, map[string]sk.Val{"f0": iv(5), "f1": sk.FloatVal(-2.25)})
	put("a", 31, map[string]sk.Val{"f0": iv(6)})
	put("a", 31, map[string]sk.Val{"f0": iv(7)}) // overwrite: last write wins
	rows := func(q *c22Query) string {
		e := m.Eval(q)
		s := ""
		for _, sr := range e.Series {
			s += sr.Name + "{" + c22TagString(sr.Tags) + "}" + c22FmtGroups(sr.Groups) + " "
		}
		return s
	}
	base := func() *c22Query { return &c22Query{Meas: []string{"m"}, TLo: -30 * c22U, THi: 40*c22U - 1} }
	check := func(name string, q *c22Query, want string) {
		if g := rows(q); g != want {
			t.Errorf("%s\n  %s\n  got  %s\n  want %s", name, q.String(), g, want)
		}
	}
	q := base()
	q.Cols = []c22Col{{Field: "f0"}, {Field: "f1"}}
	check("raw merged", q, "m{}[ { -20000000000:1i,1.5 -20000000000:2i,null } -5000000000:3i,null 0:4i,null 15000000000:5i,-2.25 31000000000:7i,null ] ")
	q = base()
	q.Cols = []c22Col{{Func: "count", Field: "f0"}, {Func: "mean", Field: "f1"}}
	q.Interval = 20 * c22U
	check("count/mean by time", q, "m{}[ -40000000000:0i,null -20000000000:3i,1.5~ 0:2i,-2.25~ 20000000000:1i,null ] ")
	q = base()
	q.Cols = []c22Col{{Func: "sum", Field: "f0"}}
	q.Interval, q.Offset, q.GroupTags, q.Fill = 10*c22U, 3*c22U, []string{"t"}, 'p'
	check("sum by time(10s,3s), t fill(previous)", q,
		"m{t=a,}[ -37000000000:null -27000000000:1i -17000000000:1i -7000000000:7i 3000000000:7i 13000000000:7i 23000000000:7i 33000000000:7i ] "+
			"m{t=b,}[ -37000000000:null -27000000000:2i -17000000000:2i -7000000000:2i 3000000000:2i 13000000000:5i 23000000000:5i 33000000000:5i ] ")
	q = base()
	q.Cols = []c22Col{{Func: "max", Field: "f0"}}
	q.GroupTags = []string{"t"}
	check("selector keeps the point time", q, "m{t=a,}[ 31000000000:7i ] m{t=b,}[ 15000000000:5i ] ")
	q = base()
	q.Cols = []c22Col{{Func: "mean", Field: "f0"}}
	q.Interval, q.Fill, q.TLo, q.THi = 10*c22U, 'l', -20*c22U, 20*c22U-1
	q.Cond = &c22Cond{Op: "tag", Key: "t", Cmp: "=", Str: "b", Lit: 's'}
	check("linear", q, "m{}[ -20000000000:2~ -10000000000:3~ 0:4~ 10000000000:5~ ] ")
	q = base()
	q.Cols = []c22Col{{Func: "derivative", Field: "f0", Unit: 2 * c22U}}
	q.GroupStar = true
	check("derivative", q, "m{t=a,}[ -5000000000:0.26666666666666666 0:0.4 31000000000:0.1935483870967742 ] m{t=b,}[ 15000000000:0.17142857142857143 ] ")
	// nearest-rank percentile: floor(N*p/100+0.5)-1
	pv := func(vs ...int64) []c22PV {
		var out []c22PV
		for i, v := range vs {
			out = append(out, c22PV{int64(i), iv(v)})
		}
		return out
	}
	for _, c := range []struct {
		p10  int64
		vals []int64
		want string
	}{
		{500, []int64{5, 1, 3}, "2:3i"}, {1000, []int64{5, 1, 3}, "0:5i"}, {0, []int64{5, 1, 3}, "[]:null"},
		{250, []int64{4, 3, 2, 1}, "3:1i"}, {900, []int64{4, 3, 2, 1}, "0:4i"}, {200, []int64{9}, "[]:null"},
	} {
		cell, ts := c22Agg(c22Col{Func: "percentile", P10: c.p10}, pv(c.vals...))
		if g := c22FmtExpRow(c22ExpRow{TAlts: ts, Cells: []c22ExpCell{cell}}); g != c.want {
			t.Errorf("percentile(%v, %d/10) = %s, want %s", c.vals, c.p10, g, c.want)
		}
	}
	cell, _ := c22Agg(c22Col{Func: "stddev"}, pv(2, 4, 4, 4, 5, 5, 7, 9))
	if math.Abs(cell.Alts[0].F-2.138089935299395) > 1e-15 {
		t.Errorf("stddev = %v", cell.Alts[0].F)
	}
	cell, _ = c22Agg(c22Col{Func: "median"}, pv(4, 1, 3, 2))
	if cell.Alts[0].F != 2.5 {
		t.Errorf("median = %v", cell.Alts[0].F)
	}
}
