package g_query

// Independent reference evaluator for the InfluxQL subset of C22 and the function definitions of
// C23. Written against DESIGN §5 C22/C23 and the public InfluxQL documentation (SELECT, GROUP BY
// time()/tags, fill(), LIMIT/SLIMIT, function reference). It works on its own query structure
// (c22Query) and its own copy of the written points; it imports nothing from influxql/query,
// tsdb or the influxql parser.

import (
	"fmt"
	"math"
	"regexp"
	"sort"
	"strings"

	"verifharness/vkit/sk"
)

// ---------------------------------------------------------------------------------------
// data model

type c22RefSeries struct {
	Meas string
	Tags map[string]string
	Key  string
	Pts  map[int64]map[string]sk.Val // ts -> field -> value (last write wins per field)
}

type c22Model struct {
	Series map[string]*c22RefSeries // by series key
	Kinds  map[string]byte          // field name -> type (one type per field name in a dataset)
}

func c22NewModel() *c22Model {
	return &c22Model{Series: map[string]*c22RefSeries{}, Kinds: map[string]byte{}}
}

func (m *c22Model) Put(w c22Write) {
	k := w.Meas + "," + c22TagString(w.Tags)
	s := m.Series[k]
	if s == nil {
		s = &c22RefSeries{Meas: w.Meas, Tags: w.Tags, Key: k, Pts: map[int64]map[string]sk.Val{}}
		m.Series[k] = s
	}
	p := s.Pts[w.T]
	if p == nil {
		p = map[string]sk.Val{}
		s.Pts[w.T] = p
	}
	for f, v := range w.Fields {
		p[f] = v
		m.Kinds[f] = v.K
	}
}

func (m *c22Model) seriesOf(meas string) []*c22RefSeries {
	var out []*c22RefSeries
	for _, s := range m.Series {
		if s.Meas == meas {
			out = append(out, s)
		}
	}
	sort.Slice(out, func(i, j int) bool { return out[i].Key < out[j].Key })
	return out
}

// ---------------------------------------------------------------------------------------
// query structure

type c22Cond struct {
	Op   string // "and" "or" "tag" "field"
	L, R *c22Cond
	Key  string
	Cmp  string // = != =~ !~ < <= > >=
	Str  string // string literal / regex source
	Num  float64
	Int  int64
	Bool bool
	Lit  byte // 's' string, 'i' integer literal, 'f' float literal, 'b' bool, 'r' regex
}

type c22Col struct {
	Func  string // "" = plain field/tag reference
	Inner string // nested aggregate for transformations over GROUP BY time
	Field string
	IsTag bool
	Alias string
	N     int   // moving_average / top / bottom
	P10   int64 // percentile in tenths of a percent... (p = P10/10)
	Unit  int64 // derivative / elapsed / integral unit in ns; 0 = documented default
}

type c22Query struct {
	Cols      []c22Col
	Meas      []string
	TLo, THi  int64 // inclusive bounds in ns
	LoExcl    bool  // rendered as "time > TLo-1"
	HiIncl    bool  // rendered as "time <= THi"
	TimeStyle int   // literal style: 0 integer ns, 1 duration, 2 RFC3339 string
	Cond      *c22Cond
	Interval  int64
	Offset    int64
	GroupTags []string
	GroupStar bool
	StarDims  []string // keys the engine expanded GROUP BY * to (validated, see dims)
	// UnorderedSeries: compare the emitted series as a set (C23: the property is about values
	// and timestamps of the functions, not about the order of output series).
	UnorderedSeries bool
	Fill            byte // 0 unspecified, 'n' null, 'x' none, 'p' previous, 'l' linear, '#' number
	FillNum         int64
	Desc            bool
	Limit, Off      int
	SLimit          int
	SOff            int
}

// ---------------------------------------------------------------------------------------
// expected result

type c22ExpCell struct {
	Alts   []c22Cell // acceptable values; a null cell is c22Cell{}
	Approx bool      // float compared with a stated relative tolerance (linear fill, stddev)
	Slack1 bool      // integer produced by linear interpolation: rounding mode is not documented, |got-exact| < 1
	Exact  float64   // exact interpolated value for Slack1
	NumEq  bool      // compare numerically, int/float representation not documented (median)
	// Range: interpolation between cells that are themselves tie alternatives — any number in
	// [Lo,Hi] (widened by the Slack1/Approx rule) of kind RK is acceptable.
	Range  bool
	Lo, Hi float64
	RK     byte
}

type c22ExpRow struct {
	TAlts    []int64
	Cells    []c22ExpCell
	Optional bool // the documentation does not say whether this row is emitted
}

// c22ExpSeries: Groups is the ordered list of row groups; rows inside a group have the same
// timestamp and their relative order is unspecified.
type c22ExpSeries struct {
	Name   string
	Tags   map[string]string
	Groups [][]c22ExpRow
	// EndsAtEpoch: integral input whose last point has timestamp 0 (names a finding's trigger).
	EndsAtEpoch bool
	// Optional: the series has input values but the function yields no value in any window
	// (percentile index out of range everywhere): emitted as all-null rows or not at all.
	Optional bool
	// EmptyCols[i]: call column i has no input value at all in this output series.
	EmptyCols []bool
	// Verify, when set, replaces the row comparison (top/bottom: any valid choice among ties).
	Verify func(got []c22OutRow) string
}

type c22Expect struct {
	Columns []string
	Series  []c22ExpSeries
	// Ambiguous: the outcome depends on something the documentation leaves open (reason given).
	Ambiguous string
	// AllSeries: the series before SOFFSET/SLIMIT. WeakSeriesOrder: some stored series lacks a
	// GROUP BY tag; the position of such a series in the order SLIMIT/SOFFSET slice is not
	// documented, so only membership, count and (by the driver) pagination are checked.
	AllSeries       []c22ExpSeries
	WeakSeriesOrder bool
	StoredSeries    int // stored series of the queried measurement(s) (upper bound for page sweeps)
	// Notes: facts about the evaluated case that name a trigger narrowly in violation features.
	Notes map[string]string
}

func c22ValCell(v sk.Val) c22Cell {
	switch v.K {
	case 'i':
		return c22Cell{K: 'i', I: v.I}
	case 'u':
		return c22Cell{K: 'u', U: v.U}
	case 'f':
		return c22Cell{K: 'f', F: math.Float64frombits(v.F)}
	case 's':
		return c22Cell{K: 's', S: v.S}
	case 'b':
		return c22Cell{K: 'b', B: v.B}
	}
	return c22Cell{}
}

func c22One(c c22Cell) c22ExpCell { return c22ExpCell{Alts: []c22Cell{c}} }

var c22Null = c22ExpCell{Alts: []c22Cell{{}}}

func (c c22ExpCell) isNull() bool { return len(c.Alts) == 1 && c.Alts[0].K == 0 }

// ---------------------------------------------------------------------------------------
// WHERE

func c22Num(v sk.Val) (float64, bool) {
	switch v.K {
	case 'i':
		return float64(v.I), true
	case 'f':
		return math.Float64frombits(v.F), true
	case 'u':
		return float64(v.U), true
	}
	return 0, false
}

func c22CmpNum(a float64, op string, b float64) bool {
	switch op {
	case "=":
		return a == b
	case "!=":
		return a != b
	case "<":
		return a < b
	case "<=":
		return a <= b
	case ">":
		return a > b
	case ">=":
		return a >= b
	}
	return false
}

// evalCond: a comparison on a field the point does not have is not satisfied (there is no
// value to compare); a missing tag compares as the empty string (documented: tag = ” selects
// series without the tag).
func (c *c22Cond) eval(tags map[string]string, fields map[string]sk.Val) bool {
	if c == nil {
		return true
	}
	switch c.Op {
	case "and":
		return c.L.eval(tags, fields) && c.R.eval(tags, fields)
	case "or":
		return c.L.eval(tags, fields) || c.R.eval(tags, fields)
	case "tag":
		v := tags[c.Key]
		switch c.Cmp {
		case "=":
			return v == c.Str
		case "!=":
			return v != c.Str
		case "=~":
			return regexp.MustCompile(c.Str).MatchString(v)
		case "!~":
			return !regexp.MustCompile(c.Str).MatchString(v)
		}
	case "field":
		v, ok := fields[c.Key]
		if !ok {
			return false
		}
		switch c.Lit {
		case 'i', 'f':
			x, isnum := c22Num(v)
			if !isnum {
				return false
			}
			y := c.Num
			if c.Lit == 'i' {
				y = float64(c.Int)
			}
			return c22CmpNum(x, c.Cmp, y)
		case 's':
			if v.K != 's' {
				return false
			}
			if c.Cmp == "=" {
				return v.S == c.Str
			}
			return v.S != c.Str
		case 'b':
			if v.K != 'b' {
				return false
			}
			if c.Cmp == "=" {
				return v.B == c.Bool
			}
			return v.B != c.Bool
		}
	}
	return false
}

// ---------------------------------------------------------------------------------------
// helpers

type c22PV struct {
	T int64
	V sk.Val
}

func c22FloorWin(t, iv, off int64) int64 {
	off = ((off % iv) + iv) % iv
	d := t - off
	q := d / iv
	if d%iv != 0 && d < 0 {
		q--
	}
	return q*iv + off
}

type c22Group struct {
	Name string
	Tags map[string]string
	tkey string
	Pts  []c22GP
}

// c22GP is one stored point that passed WHERE: timestamp + all its fields + its series tags.
type c22GP struct {
	T      int64
	Fields map[string]sk.Val
	Tags   map[string]string
}

// allTagKeys of a measurement (GROUP BY *).
func (m *c22Model) tagKeys(meas []string) []string {
	set := map[string]bool{}
	for _, s := range m.Series {
		for _, mm := range meas {
			if s.Meas == mm {
				for k := range s.Tags {
					set[k] = true
				}
			}
		}
	}
	var ks []string
	for k := range set {
		ks = append(ks, k)
	}
	sort.Strings(ks)
	return ks
}

// dims: the GROUP BY tag keys. For GROUP BY * the set of keys the engine expanded the star to is
// taken from its answer (StarDims) after c22StarDimsOK validated it: which tag keys "exist"
// depends on the shards selected for the time range, which is metadata, not row semantics.
func (m *c22Model) dims(q *c22Query) []string {
	dims := append([]string(nil), q.GroupTags...)
	if q.GroupStar {
		if q.StarDims != nil {
			dims = append([]string(nil), q.StarDims...)
		} else {
			dims = m.tagKeys(q.Meas)
		}
	}
	sort.Strings(dims)
	return dims
}

// c22StarDimsOK: the keys GROUP BY * expanded to must contain every tag key of every stored
// series that contributes a point to the result and must be tag keys of the measurement(s).
func (m *c22Model) c22StarDimsOK(q *c22Query, dims []string) string {
	all := map[string]bool{}
	for _, k := range m.tagKeys(q.Meas) {
		all[k] = true
	}
	have := map[string]bool{}
	for _, d := range dims {
		if !all[d] {
			return "GROUP BY * produced the key " + d + " which is no tag key of the measurement"
		}
		have[d] = true
	}
	for _, mm := range q.Meas {
		for _, sr := range m.seriesOf(mm) {
			if !m.contributes(q, sr) {
				continue
			}
			for k := range sr.Tags {
				if !have[k] {
					return "GROUP BY * misses the tag key " + k + " of a series with points in the result"
				}
			}
		}
	}
	return ""
}

// contributes: the stored series has a point in range passing WHERE with one of the selected fields.
func (m *c22Model) contributes(q *c22Query, sr *c22RefSeries) bool {
	for t, fs := range sr.Pts {
		if t < q.TLo || t > q.THi || !q.Cond.eval(sr.Tags, fs) {
			continue
		}
		for _, c := range q.Cols {
			if c.IsTag {
				continue
			}
			if _, ok := fs[c.Field]; ok {
				return true
			}
		}
	}
	return false
}

// groups: per measurement (sorted by name), points passing WHERE partitioned by the values of
// the GROUP BY tag keys; output series sorted by (measurement, tag values in key order).
func (m *c22Model) groups(q *c22Query) []*c22Group {
	dims := m.dims(q)
	meas := append([]string(nil), q.Meas...)
	sort.Strings(meas)
	var out []*c22Group
	seenM := map[string]bool{}
	for _, mm := range meas {
		if seenM[mm] {
			continue
		}
		seenM[mm] = true
		byKey := map[string]*c22Group{}
		for _, s := range m.seriesOf(mm) {
			gt := map[string]string{}
			key := ""
			for _, d := range dims {
				gt[d] = s.Tags[d]
				key += s.Tags[d] + "\x00"
			}
			for t, fs := range s.Pts {
				if t < q.TLo || t > q.THi {
					continue
				}
				if !q.Cond.eval(s.Tags, fs) {
					continue
				}
				g := byKey[key]
				if g == nil {
					g = &c22Group{Name: mm, Tags: gt, tkey: key}
					byKey[key] = g
				}
				g.Pts = append(g.Pts, c22GP{T: t, Fields: fs, Tags: s.Tags})
			}
		}
		var gs []*c22Group
		for _, g := range byKey {
			sort.SliceStable(g.Pts, func(i, j int) bool { return g.Pts[i].T < g.Pts[j].T })
			gs = append(gs, g)
		}
		sort.Slice(gs, func(i, j int) bool { return gs[i].tkey < gs[j].tkey })
		out = append(out, gs...)
	}
	return out
}

func (c c22Col) name() string {
	if c.Alias != "" {
		return c.Alias
	}
	if c.Func == "" {
		return c.Field
	}
	return c.Func
}

// ---------------------------------------------------------------------------------------
// evaluation

// c22CurKinds: field types of the model being evaluated (single-threaded evaluator).
var c22CurKinds map[string]byte
var c22CurNotes map[string]string

func (m *c22Model) Eval(q *c22Query) *c22Expect {
	c22CurKinds = m.Kinds
	exp := &c22Expect{Notes: map[string]string{}}
	c22CurNotes = exp.Notes
	for _, c := range q.Cols {
		exp.Columns = append(exp.Columns, c.name())
	}
	gs := m.groups(q)
	raw := q.Cols[0].Func == ""
	for _, g := range gs {
		var s *c22ExpSeries
		if raw {
			s = c22EvalRaw(q, g)
		} else {
			s = c22EvalCalls(q, g, exp)
		}
		if s != nil {
			exp.Series = append(exp.Series, *s)
		}
	}
	// ORDER BY time DESC reverses rows inside each series
	if q.Desc {
		for i := range exp.Series {
			gsr := exp.Series[i].Groups
			for a, b := 0, len(gsr)-1; a < b; a, b = a+1, b-1 {
				gsr[a], gsr[b] = gsr[b], gsr[a]
			}
		}
	}
	// A series whose rows are all skipped by OFFSET is not emitted. Whether SLIMIT/SOFFSET count
	// such a series is not documented.
	if q.Off > 0 {
		var kept []c22ExpSeries
		for _, s := range exp.Series {
			n := 0
			for _, g := range s.Groups {
				n += len(g)
			}
			if n > q.Off {
				kept = append(kept, s)
			} else if q.SLimit > 0 || q.SOff > 0 {
				exp.Ambiguous = "SLIMIT/SOFFSET together with a series emptied by OFFSET"
			}
		}
		exp.Series = kept
	}
	if q.Desc && q.Fill == 'p' && q.Interval != 0 {
		exp.Ambiguous = "fill(previous) with ORDER BY time DESC: 'previous interval' chronological or in output order is not documented"
	}
	if (q.SLimit > 0 || q.SOff > 0) && len(gs) > 0 && gs[0].Name != gs[len(gs)-1].Name {
		exp.Ambiguous = "SLIMIT/SOFFSET over several measurements (documented per measurement only)"
	}
	exp.AllSeries = exp.Series
	if q.SLimit > 0 || q.SOff > 0 {
		// strict slicing only when every stored series of the measurement has all GROUP BY tags
		// and contributes rows: whether SLIMIT/SOFFSET count series emptied by the time range or
		// a field condition, and where a series lacking a grouped tag sorts, is not documented
		// ("returns every point from <N> series in the specified measurement").
		dims := m.dims(q)
		for _, sr := range m.Series {
			for _, mm := range q.Meas {
				if sr.Meas != mm {
					continue
				}
				exp.StoredSeries++
				if !m.contributes(q, sr) {
					exp.WeakSeriesOrder = true
				}
				for _, d := range dims {
					if _, ok := sr.Tags[d]; !ok {
						exp.WeakSeriesOrder = true
					}
				}
			}
		}
	}
	if q.Desc && (q.SLimit > 0 || q.SOff > 0) && len(exp.Series) > 1 {
		exp.Ambiguous = "SLIMIT/SOFFSET with ORDER BY time DESC: series order under DESC is not documented"
	}
	// SOFFSET / SLIMIT slice the ordered series list
	if q.SOff > 0 {
		if q.SOff >= len(exp.Series) {
			exp.Series = nil
		} else {
			exp.Series = exp.Series[q.SOff:]
		}
	}
	if q.SLimit > 0 && len(exp.Series) > q.SLimit {
		exp.Series = exp.Series[:q.SLimit]
	}
	return exp
}

// raw field/tag projection: one row per stored point having at least one selected field.
func c22EvalRaw(q *c22Query, g *c22Group) *c22ExpSeries {
	s := &c22ExpSeries{Name: g.Name, Tags: g.Tags}
	var cur []c22ExpRow
	var curT int64
	flush := func() {
		if len(cur) > 0 {
			s.Groups = append(s.Groups, cur)
			cur = nil
		}
	}
	for _, p := range g.Pts {
		row := c22ExpRow{TAlts: []int64{p.T}}
		any := false
		for _, c := range q.Cols {
			if c.IsTag {
				if v, ok := p.Tags[c.Field]; ok {
					row.Cells = append(row.Cells, c22One(c22Cell{K: 's', S: v}))
				} else {
					row.Cells = append(row.Cells, c22Null)
				}
				continue
			}
			if v, ok := p.Fields[c.Field]; ok {
				row.Cells = append(row.Cells, c22One(c22ValCell(v)))
				any = true
			} else {
				row.Cells = append(row.Cells, c22Null)
			}
		}
		if !any {
			continue
		}
		if len(cur) > 0 && curT != p.T {
			flush()
		}
		curT = p.T
		cur = append(cur, row)
	}
	flush()
	if len(s.Groups) == 0 {
		return nil
	}
	return s
}

func c22IsSelector(f string) bool {
	switch f {
	case "min", "max", "first", "last", "percentile":
		return true
	}
	return false
}

func c22IsXform(f string) bool {
	switch f {
	case "difference", "non_negative_difference", "derivative", "non_negative_derivative", "moving_average", "cumulative_sum", "elapsed":
		return true
	}
	return false
}

func c22IsMultiRow(f string) bool { return f == "distinct" || f == "top" || f == "bottom" }

// colVals: the non-null values of the column's field among the group's points, time-ordered.
func c22ColVals(g *c22Group, field string) []c22PV {
	var out []c22PV
	for _, p := range g.Pts {
		if v, ok := p.Fields[field]; ok {
			out = append(out, c22PV{p.T, v})
		}
	}
	return out
}

func c22EvalCalls(q *c22Query, g *c22Group, exp *c22Expect) *c22ExpSeries {
	c0 := q.Cols[0]
	switch {
	case c22IsXform(c0.Func) || (c0.Func == "integral"):
		return c22EvalXform(q, g, exp)
	case c22IsMultiRow(c0.Func):
		return c22EvalMulti(q, g, exp)
	}
	return c22EvalAgg(q, g)
}

// windows of the query range
func c22Windows(q *c22Query) []int64 {
	var ws []int64
	first := c22FloorWin(q.TLo, q.Interval, q.Offset)
	last := c22FloorWin(q.THi, q.Interval, q.Offset)
	for w := first; w <= last; w += q.Interval {
		ws = append(ws, w)
	}
	return ws
}

// c22AggCols computes, for plain aggregate/selector columns, the per-window (or whole-range)
// result table after fill. Returns nil when the series has no value for any column.
func c22AggTable(q *c22Query, g *c22Group, cols []c22Col, applyFill bool) (times []int64, table [][]c22ExpCell, talts [][]int64) {
	vals := make([][]c22PV, len(cols))
	any := false
	for i, c := range cols {
		vals[i] = c22ColVals(g, c.Field)
		if len(vals[i]) > 0 {
			any = true
		}
	}
	if !any {
		return nil, nil, nil
	}
	if q.Interval == 0 {
		row := make([]c22ExpCell, len(cols))
		var ta []int64
		allNull := true
		for i, c := range cols {
			cell, t := c22Agg(c, vals[i])
			row[i] = cell
			if !cell.isNull() {
				allNull = false
			}
			if len(cols) == 1 && c22IsSelector(c.Func) {
				ta = t
			}
		}
		if allNull {
			return nil, nil, nil
		}
		for i, c := range cols {
			if c.Func == "count" && row[i].isNull() {
				row[i] = c22One(c22Cell{K: 'i', I: 0})
			}
		}
		if ta == nil {
			ta = []int64{q.TLo}
		}
		return []int64{q.TLo}, [][]c22ExpCell{row}, [][]int64{ta}
	}
	ws := c22Windows(q)
	table = make([][]c22ExpCell, len(ws))
	for wi, w := range ws {
		row := make([]c22ExpCell, len(cols))
		for i, c := range cols {
			var in []c22PV
			for _, pv := range vals[i] {
				if pv.T >= w && pv.T < w+q.Interval {
					in = append(in, pv)
				}
			}
			row[i], _ = c22Agg(c, in)
		}
		table[wi] = row
	}
	if !applyFill {
		return ws, table, nil
	}
	// fill, column by column, chronologically
	for i, c := range cols {
		switch q.Fill {
		case 0, 'n':
			if c.Func == "count" {
				for wi := range ws {
					if table[wi][i].isNull() {
						table[wi][i] = c22One(c22Cell{K: 'i', I: 0})
					}
				}
			}
		case '#':
			for wi := range ws {
				if table[wi][i].isNull() {
					table[wi][i] = c22FillNumber(c, vals[i], q.FillNum)
				}
			}
		case 'p':
			var prev *c22ExpCell
			for wi := range ws {
				if table[wi][i].isNull() {
					if prev != nil {
						table[wi][i] = *prev
					}
				} else {
					cp := table[wi][i]
					prev = &cp
				}
			}
		case 'l':
			c22FillLinear(ws, table, i)
		}
	}
	if q.Fill == 'x' {
		var ws2 []int64
		var t2 [][]c22ExpCell
		for wi := range ws {
			allNull := true
			for i := range cols {
				if !table[wi][i].isNull() {
					allNull = false
				}
			}
			if !allNull {
				ws2 = append(ws2, ws[wi])
				t2 = append(t2, table[wi])
			}
		}
		ws, table = ws2, t2
	}
	return ws, table, nil
}

// result type of a column given its input values: 'i' or 'f' (or 's'/'b' for first/last/mode)
func c22ResultKind(c c22Col, vals []c22PV) byte {
	in := byte('f')
	if k, ok := c22CurKinds[c.Field]; ok {
		in = k
	}
	if len(vals) > 0 {
		in = vals[0].V.K
	}
	switch c.Func {
	case "count":
		return 'i'
	case "mean", "median", "stddev":
		return 'f'
	}
	return in
}

func c22FillNumber(c c22Col, vals []c22PV, n int64) c22ExpCell {
	switch c22ResultKind(c, vals) {
	case 'i':
		return c22One(c22Cell{K: 'i', I: n})
	case 'f':
		return c22One(c22Cell{K: 'f', F: float64(n)})
	}
	return c22Null
}

func c22FillLinear(ws []int64, table [][]c22ExpCell, i int) {
	prev := -1
	for wi := 0; wi < len(ws); wi++ {
		if !table[wi][i].isNull() {
			prev = wi
			continue
		}
		if prev < 0 {
			continue
		}
		next := -1
		for k := wi + 1; k < len(ws); k++ {
			if !table[k][i].isNull() {
				next = k
				break
			}
		}
		if next < 0 {
			break
		}
		a, b := table[prev][i], table[next][i]
		if len(a.Alts) != 1 || len(b.Alts) != 1 || a.Range || b.Range {
			// interpolating between tie alternatives: anything between the extreme combinations
			cell := c22ExpCell{Range: true, Lo: math.Inf(1), Hi: math.Inf(-1), Alts: []c22Cell{{K: 'f', F: math.NaN()}}}
			for _, x := range a.Alts {
				for _, y := range b.Alts {
					var tmp c22ExpCell
					v := c22Lerp(x, y, ws[prev], ws[next], ws[wi], &tmp)
					f := v.F
					if v.K == 'i' {
						f = tmp.Exact
					}
					cell.RK = v.K
					cell.Lo, cell.Hi = math.Min(cell.Lo, f), math.Max(cell.Hi, f)
				}
			}
			table[wi][i] = cell
			continue
		}
		cell := c22ExpCell{}
		v := c22Lerp(a.Alts[0], b.Alts[0], ws[prev], ws[next], ws[wi], &cell)
		cell.Alts = []c22Cell{v}
		table[wi][i] = cell
	}
}

func c22Lerp(a, b c22Cell, ta, tb, t int64, cell *c22ExpCell) c22Cell {
	if a.K == 'i' && b.K == 'i' {
		exact := float64(a.I) + float64(b.I-a.I)*float64(t-ta)/float64(tb-ta)
		cell.Slack1 = true
		cell.Exact = exact
		return c22Cell{K: 'i', I: int64(math.Floor(exact))}
	}
	if a.K == 'f' && b.K == 'f' {
		cell.Approx = true
		return c22Cell{K: 'f', F: a.F + (b.F-a.F)*float64(t-ta)/float64(tb-ta)}
	}
	return c22Cell{}
}

// c22Agg computes one aggregate over the values of one window. Second result: the timestamps
// of the candidate points for selectors.
func c22Agg(c c22Col, in []c22PV) (c22ExpCell, []int64) {
	if len(in) == 0 {
		return c22Null, nil
	}
	kind := in[0].V.K
	switch c.Func {
	case "count":
		return c22One(c22Cell{K: 'i', I: int64(len(in))}), nil
	case "sum":
		if kind == 'i' {
			var s int64
			for _, p := range in {
				s += p.V.I
			}
			return c22One(c22Cell{K: 'i', I: s}), nil
		}
		s := 0.0
		for _, p := range in {
			x, _ := c22Num(p.V)
			s += x
		}
		return c22One(c22Cell{K: 'f', F: s}), nil
	case "mean":
		s := 0.0
		for _, p := range in {
			x, _ := c22Num(p.V)
			s += x
		}
		// The sum of the dyadic inputs is exact, but the engine combines per-series / per-shard
		// partial means weighted by their counts (mean·n re-summed), an evaluation order the
		// documentation does not fix: observed 1-ulp differences, hence the 1e-12 relative rule.
		return c22ExpCell{Alts: []c22Cell{{K: 'f', F: s / float64(len(in))}}, Approx: true}, nil
	case "min", "max":
		best, _ := c22Num(in[0].V)
		for _, p := range in {
			x, _ := c22Num(p.V)
			if (c.Func == "min" && x < best) || (c.Func == "max" && x > best) {
				best = x
			}
		}
		var ts []int64
		var cell c22Cell
		for _, p := range in {
			x, _ := c22Num(p.V)
			if x == best {
				ts = append(ts, p.T)
				cell = c22ValCell(p.V)
			}
		}
		return c22One(cell), ts
	case "first", "last":
		t := in[0].T
		if c.Func == "last" {
			t = in[len(in)-1].T
		}
		var alts []c22Cell
		for _, p := range in {
			if p.T == t {
				alts = c22AddAlt(alts, c22ValCell(p.V))
			}
		}
		return c22ExpCell{Alts: alts}, []int64{t}
	case "spread":
		lo, _ := c22Num(in[0].V)
		hi := lo
		var ilo, ihi int64 = in[0].V.I, in[0].V.I
		for _, p := range in {
			x, _ := c22Num(p.V)
			lo, hi = math.Min(lo, x), math.Max(hi, x)
			if p.V.I < ilo {
				ilo = p.V.I
			}
			if p.V.I > ihi {
				ihi = p.V.I
			}
		}
		if kind == 'i' {
			return c22One(c22Cell{K: 'i', I: ihi - ilo}), nil
		}
		return c22One(c22Cell{K: 'f', F: hi - lo}), nil
	case "median":
		xs := c22SortedNums(in)
		n := len(xs)
		var med float64
		if n%2 == 1 {
			med = xs[n/2]
		} else {
			med = (xs[n/2-1] + xs[n/2]) / 2
		}
		return c22ExpCell{Alts: []c22Cell{{K: 'f', F: med}}, NumEq: true}, nil
	case "stddev":
		// sample standard deviation; a single value has no sample deviation: the documentation
		// does not say whether that is null or NaN, both accepted
		n := len(in)
		if n < 2 {
			return c22ExpCell{Alts: []c22Cell{{}, {K: 'f', F: math.NaN()}}}, nil
		}
		mean := 0.0
		for _, p := range in {
			x, _ := c22Num(p.V)
			mean += x
		}
		mean /= float64(n)
		ss := 0.0
		for _, p := range in {
			x, _ := c22Num(p.V)
			ss += (x - mean) * (x - mean)
		}
		return c22ExpCell{Alts: []c22Cell{{K: 'f', F: math.Sqrt(ss / float64(n-1))}}, Approx: true}, nil
	case "mode":
		cnt := map[c22Cell]int{}
		best := 0
		for _, p := range in {
			c := c22ValCell(p.V)
			cnt[c]++
			if cnt[c] > best {
				best = cnt[c]
			}
		}
		var alts []c22Cell
		for _, p := range in {
			c := c22ValCell(p.V)
			if cnt[c] == best {
				alts = c22AddAlt(alts, c)
			}
		}
		return c22ExpCell{Alts: alts}, nil
	case "percentile":
		// nearest rank: index floor(N*p/100 + 0.5) - 1 into the ascending values
		n := int64(len(in))
		num := n*c.P10*10 + 5000 // (N*p/100 + 0.5) * 10000 with p = P10/10
		idx := num/10000 - 1
		idxs := []int64{idx}
		// the same formula evaluated in float64 (N·p/100 + 0.5 with p as a float literal) can
		// land on the other side of an integer when N·p/100 is not representable: then both
		// indexes are accepted
		if fi := int64(math.Floor(float64(n)*(float64(c.P10)/10)/100.0+0.5)) - 1; fi != idx {
			idxs = append(idxs, fi)
		}
		sorted := append([]c22PV(nil), in...)
		sort.SliceStable(sorted, func(i, j int) bool {
			a, _ := c22Num(sorted[i].V)
			b, _ := c22Num(sorted[j].V)
			return a < b
		})
		var alts []c22Cell
		var ts []int64
		for _, ix := range idxs {
			if ix < 0 || ix >= n {
				alts = c22AddAlt(alts, c22Cell{})
				if len(idxs) == 1 && c22CurNotes != nil {
					c22CurNotes["percentile_undefined_for_some_window"] = "true"
				}
				continue
			}
			v := c22ValCell(sorted[ix].V)
			alts = c22AddAlt(alts, v)
			for _, p := range in {
				if c22ValCell(p.V) == v {
					ts = append(ts, p.T)
				}
			}
		}
		return c22ExpCell{Alts: alts}, ts
	}
	panic("c22Agg: unknown function " + c.Func)
}

func c22AddAlt(alts []c22Cell, c c22Cell) []c22Cell {
	for _, a := range alts {
		if a == c {
			return alts
		}
	}
	return append(alts, c)
}

func c22SortedNums(in []c22PV) []float64 {
	xs := make([]float64, len(in))
	for i, p := range in {
		xs[i], _ = c22Num(p.V)
	}
	sort.Float64s(xs)
	return xs
}

func c22EvalAgg(q *c22Query, g *c22Group) *c22ExpSeries {
	ws, table, talts := c22AggTable(q, g, q.Cols, true)
	if len(ws) == 0 {
		return nil
	}
	s := &c22ExpSeries{Name: g.Name, Tags: g.Tags}
	for _, c := range q.Cols {
		s.EmptyCols = append(s.EmptyCols, len(c22ColVals(g, c.Field)) == 0)
	}
	if q.Interval != 0 {
		_, rawTable, _ := c22AggTable(q, g, q.Cols, false)
		s.Optional = true
		for _, row := range rawTable {
			for _, c := range row {
				if !c.isNull() {
					s.Optional = false
				}
			}
		}
	}
	for wi, w := range ws {
		ta := []int64{w}
		if talts != nil {
			ta = talts[wi]
		}
		// A column whose field has no value at all in this output series (while another column
		// has): the engine reports null there (the field "does not exist" for the series) also
		// where count()/fill(<n>) would report 0/<n> for an interval without data. The
		// documentation speaks of intervals without data, not of series without the field:
		// both accepted.
		for ci := range table[wi] {
			if s.EmptyCols[ci] && !table[wi][ci].isNull() {
				c := table[wi][ci]
				c.Alts = append(append([]c22Cell(nil), c.Alts...), c22Cell{})
				table[wi][ci] = c
			}
		}
		s.Groups = append(s.Groups, []c22ExpRow{{TAlts: ta, Cells: table[wi]}})
	}
	return s
}

// ---------------------------------------------------------------------------------------
// C23: transformations (documented definitions)

type c22NumPt struct {
	T   int64
	K   byte // 'i' or 'f'
	I   int64
	F   float64
	Alt bool // value was one of several acceptable alternatives (tie): result is ambiguous
}

func (p c22NumPt) f() float64 {
	if p.K == 'i' {
		return float64(p.I)
	}
	return p.F
}

func c22EvalXform(q *c22Query, g *c22Group, exp *c22Expect) *c22ExpSeries {
	c := q.Cols[0]
	var in []c22NumPt
	if c.Inner == "" {
		vals := c22ColVals(g, c.Field)
		for i, pv := range vals {
			if i > 0 && vals[i-1].T == pv.T {
				exp.Ambiguous = "transformation over a merged series with two values at one timestamp"
				return nil
			}
			x, ok := c22Num(pv.V)
			if !ok {
				exp.Ambiguous = "non numeric input"
				return nil
			}
			in = append(in, c22NumPt{T: pv.T, K: pv.V.K, I: pv.V.I, F: x})
		}
		if c.Func == "integral" && q.Interval != 0 {
			exp.Ambiguous = "integral with GROUP BY time: boundary interpolation not documented"
			return nil
		}
	} else {
		inner := c22Col{Func: c.Inner, Field: c.Field, P10: c.P10}
		ws, table, _ := c22AggTable(q, g, []c22Col{inner}, true)
		for wi, w := range ws {
			cell := table[wi][0]
			if cell.isNull() {
				continue
			}
			if len(cell.Alts) != 1 || cell.Slack1 || cell.Range {
				exp.Ambiguous = "transformation input is a tie alternative"
				return nil
			}
			v := cell.Alts[0]
			switch v.K {
			case 'i':
				in = append(in, c22NumPt{T: w, K: 'i', I: v.I, F: float64(v.I)})
			case 'f':
				in = append(in, c22NumPt{T: w, K: 'f', F: v.F})
			default:
				exp.Ambiguous = "non numeric input"
				return nil
			}
		}
	}
	if len(in) == 0 {
		return nil
	}
	defUnit := int64(0)
	if c.Inner != "" {
		defUnit = q.Interval
	}
	if c.Inner == "mean" && strings.HasPrefix(c.Func, "non_negative") {
		// inputs are only known up to the rounding of mean(): a difference that is zero up to
		// that rounding may be kept or dropped
		for k := 1; k < len(in); k++ {
			a, b := in[k-1].f(), in[k].f()
			if a != b && math.Abs(a-b) <= 1e-9*math.Max(math.Abs(a), math.Abs(b)) {
				exp.Ambiguous = "non_negative_* over mean() values equal up to rounding"
				return nil
			}
		}
	}
	outs := c23Seq(c.Func, in, c.Unit, defUnit, c.N)
	s := &c22ExpSeries{Name: g.Name, Tags: g.Tags}
	if c.Func == "integral" {
		// general rule: an aggregate without GROUP BY time is stamped with the lower time bound;
		// the INTEGRAL examples in the function reference show the epoch (1970-01-01T00:00:00Z)
		// although their WHERE clause has a lower bound: both accepted.
		if in[len(in)-1].T == 0 && len(in) > 1 {
			exp.Notes["integral_last_point_at_epoch"] = "true"
			s.EndsAtEpoch = true
		}
		row := c22ExpRow{TAlts: []int64{q.TLo, 0}, Cells: []c22ExpCell{c22One(outs[0].C)}}
		if len(in) == 1 {
			row.Optional = true // area under a single point: 0 or no row — not documented
			s.Optional = true
		}
		s.Groups = append(s.Groups, []c22ExpRow{row})
		return s
	}
	for _, o := range outs {
		cell := c22One(o.C)
		// the nested mean() values are not dyadic: the transformation then is a chain of
		// roundings whose order is not specified (running sum vs. re-summation): 1e-12 relative
		cell.Approx = c.Inner == "mean"
		s.Groups = append(s.Groups, []c22ExpRow{{TAlts: []int64{o.T}, Cells: []c22ExpCell{cell}}})
	}
	if len(s.Groups) == 0 {
		return nil
	}
	return s
}

type c23Out struct {
	T int64
	C c22Cell
}

// c23Seq: the documented definitions of the transformations over one time-ordered series with
// unique timestamps. unit 0 = documented default (derivative/integral 1 s — or the GROUP BY
// interval defUnit for the nested form —, elapsed 1 ns). Output timestamps: the later point
// of each pair / the last point of each window; integral yields one value (time set by caller).
func c23Seq(fn string, in []c22NumPt, unit, defUnit int64, n int) []c23Out {
	var out []c23Out
	add := func(t int64, cell c22Cell) { out = append(out, c23Out{t, cell}) }
	if len(in) == 0 {
		return nil
	}
	intIn := in[0].K == 'i'
	switch fn {
	case "difference", "non_negative_difference":
		for k := 1; k < len(in); k++ {
			if intIn {
				d := in[k].I - in[k-1].I
				if fn == "non_negative_difference" && d < 0 {
					continue
				}
				add(in[k].T, c22Cell{K: 'i', I: d})
			} else {
				d := in[k].F - in[k-1].F
				if fn == "non_negative_difference" && d < 0 {
					continue
				}
				add(in[k].T, c22Cell{K: 'f', F: d})
			}
		}
	case "derivative", "non_negative_derivative":
		if unit == 0 {
			unit = 1e9
			if defUnit != 0 {
				unit = defUnit
			}
		}
		for k := 1; k < len(in); k++ {
			d := in[k].f() - in[k-1].f()
			if fn == "non_negative_derivative" && d < 0 {
				continue
			}
			add(in[k].T, c22Cell{K: 'f', F: d / (float64(in[k].T-in[k-1].T) / float64(unit))})
		}
	case "moving_average":
		for k := n - 1; k < len(in); k++ {
			sum := 0.0
			for j := k - n + 1; j <= k; j++ {
				sum += in[j].f()
			}
			add(in[k].T, c22Cell{K: 'f', F: sum / float64(n)})
		}
	case "cumulative_sum":
		var si int64
		sf := 0.0
		for k := range in {
			if intIn {
				si += in[k].I
				add(in[k].T, c22Cell{K: 'i', I: si})
			} else {
				sf += in[k].F
				add(in[k].T, c22Cell{K: 'f', F: sf})
			}
		}
	case "elapsed":
		if unit == 0 {
			unit = 1
		}
		for k := 1; k < len(in); k++ {
			add(in[k].T, c22Cell{K: 'i', I: (in[k].T - in[k-1].T) / unit})
		}
	case "integral":
		if unit == 0 {
			unit = 1e9
		}
		area := 0.0
		for k := 1; k < len(in); k++ {
			area += 0.5 * (in[k].f() + in[k-1].f()) * (float64(in[k].T-in[k-1].T) / float64(unit))
		}
		add(in[0].T, c22Cell{K: 'f', F: area})
	}
	return out
}

// distinct / top / bottom
func c22EvalMulti(q *c22Query, g *c22Group, exp *c22Expect) *c22ExpSeries {
	c := q.Cols[0]
	vals := c22ColVals(g, c.Field)
	if len(vals) == 0 {
		return nil
	}
	s := &c22ExpSeries{Name: g.Name, Tags: g.Tags}
	type win struct {
		T  int64
		In []c22PV
	}
	var wins []win
	if q.Interval == 0 {
		wins = []win{{q.TLo, vals}}
	} else {
		for _, w := range c22Windows(q) {
			var in []c22PV
			for _, pv := range vals {
				if pv.T >= w && pv.T < w+q.Interval {
					in = append(in, pv)
				}
			}
			if len(in) > 0 {
				wins = append(wins, win{w, in})
			}
		}
	}
	switch c.Func {
	case "distinct":
		for _, w := range wins {
			var alts []c22Cell
			for _, pv := range w.In {
				alts = c22AddAlt(alts, c22ValCell(pv.V))
			}
			var grp []c22ExpRow
			for _, a := range alts {
				grp = append(grp, c22ExpRow{TAlts: []int64{w.T}, Cells: []c22ExpCell{c22One(a)}})
			}
			s.Groups = append(s.Groups, grp)
		}
	case "top", "bottom":
		sign := 1.0
		if c.Func == "bottom" {
			sign = -1
		}
		type wexp struct {
			lo, hi int64 // window bounds (inclusive)
			pts    map[c22OutKey]int
			want   []float64 // multiset of the n extreme values, sorted
			wantTX []string  // the n extreme points as "time:value", ties on the value broken towards the earliest time (documented), sorted
		}
		var we []wexp
		for _, w := range wins {
			e := wexp{lo: w.T, hi: w.T + q.Interval - 1, pts: map[c22OutKey]int{}}
			if q.Interval == 0 {
				e.lo, e.hi = q.TLo, q.THi
			}
			var xs []float64
			type tx struct {
				t int64
				x float64
			}
			var txs []tx
			for _, pv := range w.In {
				x, _ := c22Num(pv.V)
				xs = append(xs, sign*x)
				txs = append(txs, tx{pv.T, sign * x})
				e.pts[c22OutKey{pv.T, c22ValCell(pv.V)}]++
			}
			sort.Sort(sort.Reverse(sort.Float64Slice(xs)))
			if len(xs) > c.N {
				xs = xs[:c.N]
			}
			sort.Float64s(xs)
			e.want = xs
			sort.SliceStable(txs, func(i, j int) bool {
				if txs[i].x != txs[j].x {
					return txs[i].x > txs[j].x
				}
				return txs[i].t < txs[j].t
			})
			if len(txs) > c.N {
				txs = txs[:c.N]
			}
			for _, p := range txs {
				e.wantTX = append(e.wantTX, fmt.Sprintf("%d:%v", p.t, p.x))
			}
			sort.Strings(e.wantTX)
			we = append(we, e)
		}
		desc := q.Desc
		s.Verify = func(got []c22OutRow) string {
			// rows in time order; per window: real points of the window, exactly the n extreme values
			for i := 1; i < len(got); i++ {
				if (!desc && got[i].T < got[i-1].T) || (desc && got[i].T > got[i-1].T) {
					return fmt.Sprintf("rows not in time order at index %d", i)
				}
			}
			used := map[c22OutKey]int{}
			perWin := make([][]float64, len(we))
			perWinTX := make([][]string, len(we))
			for _, r := range got {
				if len(r.Cells) != 1 {
					return "row width"
				}
				found := false
				for wi, e := range we {
					if r.T >= e.lo && r.T <= e.hi {
						k := c22OutKey{r.T, r.Cells[0]}
						used[k]++
						if used[k] > e.pts[k] {
							return fmt.Sprintf("row %s is not a stored point of its window (or repeated)", r)
						}
						x := r.Cells[0].F
						if r.Cells[0].K == 'i' {
							x = float64(r.Cells[0].I)
						}
						perWin[wi] = append(perWin[wi], sign*x)
						perWinTX[wi] = append(perWinTX[wi], fmt.Sprintf("%d:%v", r.T, sign*x))
						found = true
						break
					}
				}
				if !found {
					return fmt.Sprintf("row %s outside every window with data", r)
				}
			}
			for wi, e := range we {
				xs := perWin[wi]
				sort.Float64s(xs)
				if fmt.Sprint(xs) != fmt.Sprint(e.want) {
					return fmt.Sprintf("window starting %d: values (sign-normalised) %v, want the %d extreme values %v", e.lo, xs, c.N, e.want)
				}
				txs := perWinTX[wi]
				sort.Strings(txs)
				if fmt.Sprint(txs) != fmt.Sprint(e.wantTX) {
					return fmt.Sprintf("window starting %d: points (time:sign-normalised value) %v, want %v (a tie on the value goes to the earliest point)", e.lo, txs, e.wantTX)
				}
			}
			return ""
		}
		// Groups only carry the row count for non-triviality accounting
		for _, e := range we {
			for range e.want {
				s.Groups = append(s.Groups, []c22ExpRow{{TAlts: []int64{e.lo}}})
			}
		}
	}
	if len(s.Groups) == 0 {
		return nil
	}
	return s
}

type c22OutKey struct {
	T int64
	C c22Cell
}

// ---------------------------------------------------------------------------------------
// rendering of queries (the text handed to the real parser)

func c22Ident(s string) string { return `"` + s + `"` }

func c22Dur(ns int64) string {
	neg := ""
	if ns < 0 {
		neg = "-"
		ns = -ns
	}
	switch {
	case ns == 0:
		return "0s"
	case ns%1e9 == 0:
		return fmt.Sprintf("%s%ds", neg, ns/1e9)
	case ns%1e6 == 0:
		return fmt.Sprintf("%s%dms", neg, ns/1e6)
	case ns%1e3 == 0:
		return fmt.Sprintf("%s%du", neg, ns/1e3)
	}
	return fmt.Sprintf("%s%dns", neg, ns)
}

func c22TimeLit(ns int64, style int) string {
	switch style {
	case 1:
		return c22Dur(ns)
	case 2:
		return "'" + c22RFC3339(ns) + "'"
	}
	return fmt.Sprint(ns)
}

func (c *c22Cond) String() string {
	switch c.Op {
	case "and":
		return "(" + c.L.String() + " AND " + c.R.String() + ")"
	case "or":
		return "(" + c.L.String() + " OR " + c.R.String() + ")"
	case "tag":
		if c.Lit == 'r' {
			return fmt.Sprintf("%s %s /%s/", c22Ident(c.Key), c.Cmp, c.Str)
		}
		return fmt.Sprintf("%s %s '%s'", c22Ident(c.Key), c.Cmp, c.Str)
	case "field":
		switch c.Lit {
		case 'i':
			return fmt.Sprintf("%s %s %d", c22Ident(c.Key), c.Cmp, c.Int)
		case 'f':
			return fmt.Sprintf("%s %s %s", c22Ident(c.Key), c.Cmp, c22FloatLit(c.Num))
		case 's':
			return fmt.Sprintf("%s %s '%s'", c22Ident(c.Key), c.Cmp, c.Str)
		case 'b':
			return fmt.Sprintf("%s %s %v", c22Ident(c.Key), c.Cmp, c.Bool)
		}
	}
	return "?"
}

func c22FloatLit(f float64) string {
	s := fmt.Sprintf("%v", f)
	if !strings.ContainsAny(s, ".e") {
		s += ".0"
	}
	return s
}

func (c c22Col) String() string {
	var s string
	ref := c22Ident(c.Field)
	if c.Inner != "" {
		if c.Inner == "percentile" {
			ref = fmt.Sprintf("percentile(%s, %s)", ref, c22P(c.P10))
		} else {
			ref = c.Inner + "(" + ref + ")"
		}
	}
	switch c.Func {
	case "":
		s = ref
		if c.IsTag {
			s = ref + "::tag"
		}
	case "percentile":
		s = fmt.Sprintf("percentile(%s, %s)", ref, c22P(c.P10))
	case "top", "bottom", "moving_average":
		s = fmt.Sprintf("%s(%s, %d)", c.Func, ref, c.N)
	case "derivative", "non_negative_derivative", "elapsed", "integral":
		if c.Unit != 0 {
			s = fmt.Sprintf("%s(%s, %s)", c.Func, ref, c22Dur(c.Unit))
		} else {
			s = fmt.Sprintf("%s(%s)", c.Func, ref)
		}
	default:
		s = c.Func + "(" + ref + ")"
	}
	if c.Alias != "" {
		s += " AS " + c22Ident(c.Alias)
	}
	return s
}

func c22P(p10 int64) string {
	if p10%10 == 0 {
		return fmt.Sprint(p10 / 10)
	}
	return fmt.Sprintf("%d.%d", p10/10, p10%10)
}

func (q *c22Query) String() string {
	var b strings.Builder
	b.WriteString("SELECT ")
	for i, c := range q.Cols {
		if i > 0 {
			b.WriteString(", ")
		}
		b.WriteString(c.String())
	}
	b.WriteString(" FROM ")
	for i, m := range q.Meas {
		if i > 0 {
			b.WriteString(", ")
		}
		b.WriteString(c22Ident(m))
	}
	b.WriteString(" WHERE ")
	if q.LoExcl {
		b.WriteString("time > " + c22TimeLit(q.TLo-1, q.TimeStyle))
	} else {
		b.WriteString("time >= " + c22TimeLit(q.TLo, q.TimeStyle))
	}
	if q.HiIncl {
		b.WriteString(" AND time <= " + c22TimeLit(q.THi, q.TimeStyle))
	} else {
		b.WriteString(" AND time < " + c22TimeLit(q.THi+1, q.TimeStyle))
	}
	if q.Cond != nil {
		b.WriteString(" AND " + q.Cond.String())
	}
	var gb []string
	if q.Interval != 0 {
		if q.Offset != 0 {
			gb = append(gb, fmt.Sprintf("time(%s, %s)", c22Dur(q.Interval), c22Dur(q.Offset)))
		} else {
			gb = append(gb, fmt.Sprintf("time(%s)", c22Dur(q.Interval)))
		}
	}
	if q.GroupStar {
		gb = append(gb, "*")
	}
	for _, t := range q.GroupTags {
		gb = append(gb, c22Ident(t))
	}
	if len(gb) > 0 {
		b.WriteString(" GROUP BY " + strings.Join(gb, ", "))
	}
	switch q.Fill {
	case 'n':
		b.WriteString(" fill(null)")
	case 'x':
		b.WriteString(" fill(none)")
	case 'p':
		b.WriteString(" fill(previous)")
	case 'l':
		b.WriteString(" fill(linear)")
	case '#':
		b.WriteString(fmt.Sprintf(" fill(%d)", q.FillNum))
	}
	if q.Desc {
		b.WriteString(" ORDER BY time DESC")
	}
	if q.Limit > 0 {
		b.WriteString(fmt.Sprintf(" LIMIT %d", q.Limit))
	}
	if q.Off > 0 {
		b.WriteString(fmt.Sprintf(" OFFSET %d", q.Off))
	}
	if q.SLimit > 0 {
		b.WriteString(fmt.Sprintf(" SLIMIT %d", q.SLimit))
	}
	if q.SOff > 0 {
		b.WriteString(fmt.Sprintf(" SOFFSET %d", q.SOff))
	}
	return b.String()
}

// c22RFC3339 renders ns since epoch as an RFC3339Nano UTC timestamp without the time package's
// help for negative values (civil-from-days algorithm).
func c22RFC3339(ns int64) string {
	sec := ns / 1e9
	frac := ns % 1e9
	if frac < 0 {
		frac += 1e9
		sec--
	}
	days := sec / 86400
	rem := sec % 86400
	if rem < 0 {
		rem += 86400
		days--
	}
	// civil from days (Howard Hinnant)
	z := days + 719468
	era := z / 146097
	if z < 0 {
		era = (z - 146096) / 146097
	}
	doe := z - era*146097
	yoe := (doe - doe/1460 + doe/36524 - doe/146096) / 365
	y := yoe + era*400
	doy := doe - (365*yoe + yoe/4 - yoe/100)
	mp := (5*doy + 2) / 153
	d := doy - (153*mp+2)/5 + 1
	mth := mp + 3
	if mth > 12 {
		mth -= 12
	}
	if mth <= 2 {
		y++
	}
	s := fmt.Sprintf("%04d-%02d-%02dT%02d:%02d:%02d", y, mth, d, rem/3600, rem%3600/60, rem%60)
	if frac != 0 {
		f := fmt.Sprintf("%09d", frac)
		f = strings.TrimRight(f, "0")
		s += "." + f
	}
	return s + "Z"
}
