package g_query

// Subject assembly for C22/C23: a dataset is written into 1–3 real tsdb.Shards (vkit/sk), the
// shards are exposed through coordinator.LocalShardMapper (our own tiny MetaClient / TSDBStore /
// DBRP service), statements are parsed by github.com/influxdata/influxql, executed by
// query.Select and read through query.Emitter with chunkSize 0 — the same chain
// v1/coordinator.StatementExecutor.executeSelectStatement runs.

import (
	"context"
	"fmt"
	"os"
	"path/filepath"
	"sort"
	"time"

	"github.com/influxdata/influxdb/v2"
	"github.com/influxdata/influxdb/v2/influxql/query"
	"github.com/influxdata/influxdb/v2/kit/platform"
	"github.com/influxdata/influxdb/v2/models"
	"github.com/influxdata/influxdb/v2/tsdb"
	"github.com/influxdata/influxdb/v2/v1/coordinator"
	"github.com/influxdata/influxdb/v2/v1/services/meta"
	"github.com/influxdata/influxql"

	"verifharness/vkit/sk"
)

// c22Write is one written point (one WritePoints element).
type c22Write struct {
	Meas   string            `json:"m"`
	Tags   map[string]string `json:"tags"`
	T      int64             `json:"t"`
	Fields map[string]sk.Val `json:"-"`
	FStr   map[string]string `json:"fields"` // printable copy of Fields for witnesses
}

// c22ShardSpec: the shard owns timestamps in [Lo,Hi). Steps is the write/snapshot schedule:
// Batches[i] is written, then a snapshot to TSM is taken iff Snap[i].
type c22ShardSpec struct {
	Lo, Hi  int64
	Batches [][]c22Write
	Snap    []bool
	Reopen  bool // close+reopen the shard after the last step (WAL replay feeds the cache)
}

type c22Stack struct {
	dir    string
	shards []*sk.Shard
	specs  []c22ShardSpec
	mapper *coordinator.LocalShardMapper
	// poisoned: a statement hung inside the engine; the stack is abandoned
	poisoned bool
}

type c22Meta struct{ specs []c22ShardSpec }

// ShardGroupsByTimeRange: every group whose [start,end) intersects [min,max] (what the meta
// store documents: groups that may hold points of the range).
func (m *c22Meta) ShardGroupsByTimeRange(database, policy string, min, max time.Time) ([]meta.ShardGroupInfo, error) {
	var out []meta.ShardGroupInfo
	for i, s := range m.specs {
		lo, hi := min.UnixNano(), max.UnixNano()
		if s.Lo <= hi && s.Hi > lo {
			out = append(out, meta.ShardGroupInfo{ID: uint64(i + 1), StartTime: time.Unix(0, s.Lo), EndTime: time.Unix(0, s.Hi),
				Shards: []meta.ShardInfo{{ID: uint64(i + 1)}}})
		}
	}
	return out, nil
}

type c22Store struct{ shards []*sk.Shard }

func (s *c22Store) ShardGroup(ids []uint64) tsdb.ShardGroup {
	var a tsdb.Shards
	for _, id := range ids {
		a = append(a, s.shards[id-1].Sh)
	}
	return a
}

type c22DBRP struct{}

var c22Bucket = platform.ID(0xffee)
var c22Org = platform.ID(0xff00)

func (c22DBRP) FindByID(ctx context.Context, orgID, id platform.ID) (*influxdb.DBRPMapping, error) {
	return nil, fmt.Errorf("not implemented")
}
func (c22DBRP) FindMany(ctx context.Context, f influxdb.DBRPMappingFilter, opts ...influxdb.FindOptions) ([]*influxdb.DBRPMapping, int, error) {
	return []*influxdb.DBRPMapping{{ID: 1, Database: "db0", RetentionPolicy: "rp0", OrganizationID: c22Org, BucketID: c22Bucket, Default: true}}, 1, nil
}
func (c22DBRP) Create(ctx context.Context, dbrp *influxdb.DBRPMapping) error { return nil }
func (c22DBRP) Update(ctx context.Context, dbrp *influxdb.DBRPMapping) error { return nil }
func (c22DBRP) Delete(ctx context.Context, orgID, id platform.ID) error      { return nil }

func c22ToPoint(w c22Write) models.Point {
	return sk.Point(w.Meas, w.Tags, w.Fields, w.T)
}

// c22OpenStack materialises the shard specs as real shards under dir.
func c22OpenStack(dir string, specs []c22ShardSpec) (*c22Stack, error) {
	st := &c22Stack{dir: dir, specs: specs}
	for i, sp := range specs {
		sh, err := sk.Open(filepath.Join(dir, fmt.Sprintf("s%d", i)), sk.Opts{})
		if err != nil {
			st.Close()
			return nil, err
		}
		st.shards = append(st.shards, sh)
		for bi, b := range sp.Batches {
			pts := make([]models.Point, 0, len(b))
			for _, w := range b {
				if w.T < sp.Lo || w.T >= sp.Hi {
					st.Close()
					return nil, fmt.Errorf("generator bug: point %d outside shard [%d,%d)", w.T, sp.Lo, sp.Hi)
				}
				pts = append(pts, c22ToPoint(w))
			}
			if len(pts) > 0 {
				if err := sh.Write(pts); err != nil {
					st.Close()
					return nil, fmt.Errorf("write: %w", err)
				}
			}
			if sp.Snap[bi] {
				if err := sh.Snapshot(); err != nil {
					st.Close()
					return nil, fmt.Errorf("snapshot: %w", err)
				}
			}
		}
		if sp.Reopen {
			if err := sh.Reopen(); err != nil {
				st.Close()
				return nil, fmt.Errorf("reopen: %w", err)
			}
		}
	}
	st.mapper = &coordinator.LocalShardMapper{MetaClient: &c22Meta{specs}, TSDBStore: &c22Store{st.shards}, DBRP: c22DBRP{}}
	return st, nil
}

func (st *c22Stack) Close() {
	if st.poisoned {
		return
	}
	for _, s := range st.shards {
		if s != nil && s.Sh != nil {
			s.Close()
		}
	}
	os.RemoveAll(st.dir)
}

const c22QueryWatchdog = 60 * time.Second
const c22MaxRows = 200000

// c22WatchdogFired counts abandoned statements; minimisation stops and the check gives up
// (inconclusive) after a few of them so that a hanging engine cannot stall the run.
var c22WatchdogFired int

var errC22Watchdog = fmt.Errorf("query watchdog (%s) fired", c22QueryWatchdog)

// c22Cell is one output value: Kind 0 = null, 'i','u','f','s','b' typed.
type c22Cell struct {
	K byte
	I int64
	U uint64
	F float64
	S string
	B bool
}

func (c c22Cell) String() string {
	switch c.K {
	case 0:
		return "null"
	case 'i':
		return fmt.Sprintf("%di", c.I)
	case 'u':
		return fmt.Sprintf("%du", c.U)
	case 'f':
		return fmt.Sprintf("%v", c.F)
	case 's':
		return fmt.Sprintf("%q", c.S)
	case 'b':
		return fmt.Sprint(c.B)
	}
	return "?"
}

type c22OutRow struct {
	T     int64
	Cells []c22Cell
}

func (r c22OutRow) String() string {
	s := fmt.Sprintf("%d:", r.T)
	for i, c := range r.Cells {
		if i > 0 {
			s += ","
		}
		s += c.String()
	}
	return s
}

// c22OutSeries is one emitted series (models.Row): name, group-by tags, columns after "time".
type c22OutSeries struct {
	Name    string
	Tags    map[string]string
	Columns []string
	Rows    []c22OutRow
}

func c22TagString(t map[string]string) string {
	ks := make([]string, 0, len(t))
	for k := range t {
		ks = append(ks, k)
	}
	sort.Strings(ks)
	s := ""
	for _, k := range ks {
		s += k + "=" + t[k] + ","
	}
	return s
}

func c22CellOf(v interface{}) (c22Cell, error) {
	switch x := v.(type) {
	case nil:
		return c22Cell{}, nil
	case int64:
		return c22Cell{K: 'i', I: x}, nil
	case uint64:
		return c22Cell{K: 'u', U: x}, nil
	case float64:
		return c22Cell{K: 'f', F: x}, nil
	case string:
		return c22Cell{K: 's', S: x}, nil
	case bool:
		return c22Cell{K: 'b', B: x}, nil
	case *float64:
		if x == nil {
			return c22Cell{}, nil
		}
		return c22Cell{K: 'f', F: *x}, nil
	}
	return c22Cell{}, fmt.Errorf("unexpected value type %T", v)
}

// c22Run parses and executes one statement on the real stack and returns the emitted series.
// The statement runs in its own goroutine: a loop inside the engine that cannot be interrupted
// through the context is abandoned when the watchdog fires (the stack is then poisoned: no
// further statements, no Close — the goroutine may hold engine locks).
func (st *c22Stack) c22Run(q string) ([]c22OutSeries, error) {
	if st.poisoned {
		return nil, errC22Watchdog
	}
	type res struct {
		out []c22OutSeries
		err error
	}
	ch := make(chan res, 1)
	go func() {
		o, e := st.c22RunInline(q)
		ch <- res{o, e}
	}()
	select {
	case r := <-ch:
		return r.out, r.err
	case <-time.After(c22QueryWatchdog + 5*time.Second):
		st.poisoned = true
		c22WatchdogFired++
		return nil, errC22Watchdog
	}
}

func (st *c22Stack) c22RunInline(q string) ([]c22OutSeries, error) {
	stmt, err := influxql.ParseStatement(q)
	if err != nil {
		return nil, fmt.Errorf("parse: %w", err)
	}
	sel, ok := stmt.(*influxql.SelectStatement)
	if !ok {
		return nil, fmt.Errorf("not a select: %T", stmt)
	}
	// generous wall-clock watchdog (its firing is "inconclusive", never a verdict) and a
	// deterministic cap on the result size (the reference never expects more than a few
	// thousand rows; a runaway window loop is reported as an error instead of eating memory)
	ctx, cancel := context.WithTimeout(context.Background(), c22QueryWatchdog)
	defer cancel()
	cur, err := query.Select(ctx, sel, st.mapper, query.SelectOptions{OrgID: c22Org})
	if err != nil {
		if ctx.Err() != nil {
			return nil, errC22Watchdog
		}
		return nil, fmt.Errorf("select: %w", err)
	}
	em := query.NewEmitter(cur, 0)
	defer em.Close()
	var out []c22OutSeries
	total := 0
	for {
		row, _, err := em.Emit()
		if ctx.Err() != nil {
			return nil, errC22Watchdog
		}
		if err != nil {
			return nil, fmt.Errorf("emit: %w", err)
		}
		if row == nil {
			break
		}
		total += len(row.Values)
		if total > c22MaxRows {
			return nil, fmt.Errorf("runaway result: more than %d rows", c22MaxRows)
		}
		if len(row.Columns) == 0 || row.Columns[0] != "time" {
			return nil, fmt.Errorf("first column is not time: %v", row.Columns)
		}
		s := c22OutSeries{Name: row.Name, Tags: map[string]string{}, Columns: append([]string(nil), row.Columns[1:]...)}
		for k, v := range row.Tags {
			s.Tags[k] = v
		}
		for _, vals := range row.Values {
			tv, ok := vals[0].(time.Time)
			if !ok {
				return nil, fmt.Errorf("time column holds %T", vals[0])
			}
			r := c22OutRow{T: tv.UnixNano()}
			for _, v := range vals[1:] {
				c, err := c22CellOf(v)
				if err != nil {
					return nil, err
				}
				r.Cells = append(r.Cells, c)
			}
			s.Rows = append(s.Rows, r)
		}
		out = append(out, s)
	}
	return out, nil
}
