// Package vkit holds the shared machinery of the verification harness.
package vkit
