package vkit

import "hash/fnv"

// Rand is a splitmix64 generator; every case derives its own from (seed, property, case#),
// so a case is replayable in isolation and case lists are a pure function of (seed, tier).
type Rand struct{ s uint64 }

func NewRand(seed uint64) *Rand { return &Rand{s: seed} }

func hashStr(s string) uint64 {
	h := fnv.New64a()
	h.Write([]byte(s))
	return h.Sum64()
}

// CaseRand derives the generator of one case.
func CaseRand(seed int64, prop string, caseNo int) *Rand {
	r := &Rand{s: uint64(seed)*0x9E3779B97F4A7C15 ^ hashStr(prop)}
	r.Uint64()
	r.s ^= uint64(caseNo) * 0xBF58476D1CE4E5B9
	r.Uint64()
	return r
}

func (r *Rand) Uint64() uint64 {
	r.s += 0x9E3779B97F4A7C15
	z := r.s
	z = (z ^ (z >> 30)) * 0xBF58476D1CE4E5B9
	z = (z ^ (z >> 27)) * 0x94D049BB133111EB
	return z ^ (z >> 31)
}
func (r *Rand) Int63() int64 { return int64(r.Uint64() >> 1) }
func (r *Rand) Int64() int64 { return int64(r.Uint64()) }

// Intn returns a value in [0,n). n must be > 0.
func (r *Rand) Intn(n int) int {
	if n <= 0 {
		panic("vkit: Intn with n <= 0")
	}
	return int(r.Uint64() % uint64(n))
}

// Range returns a value in [lo,hi] inclusive.
func (r *Rand) Range(lo, hi int) int { return lo + r.Intn(hi-lo+1) }
func (r *Rand) Bool() bool           { return r.Uint64()&1 == 1 }

// Chance is true with probability num/den.
func (r *Rand) Chance(num, den int) bool { return r.Intn(den) < num }
func (r *Rand) Float64() float64         { return float64(r.Uint64()>>11) / (1 << 53) }
func (r *Rand) Perm(n int) []int {
	p := make([]int, n)
	for i := range p {
		p[i] = i
	}
	for i := n - 1; i > 0; i-- {
		j := r.Intn(i + 1)
		p[i], p[j] = p[j], p[i]
	}
	return p
}
func (r *Rand) Bytes(n int) []byte {
	b := make([]byte, n)
	for i := range b {
		b[i] = byte(r.Uint64())
	}
	return b
}

func Pick[T any](r *Rand, xs []T) T { return xs[r.Intn(len(xs))] }
