// Package sched is the schedule controller (DESIGN §4 M2): it parks the goroutine that
// reaches a named verifhook point until released, so that another operation can be placed
// between two consecutive critical sections of the parked one — a deterministic, replayable
// interleaving at hook granularity.
package sched

import (
	"runtime"
	"strings"
	"sync"
	"time"

	"github.com/influxdata/influxdb/v2/pkg/verifhook"
)

// Park is one armed hook point.
type Park struct {
	Hook    string
	reached chan struct{}
	release chan struct{}
	once    sync.Once
	relOnce sync.Once
	restore func()
	nth     int
	mu      sync.Mutex
	hits    int
}

// At arms hook: the nth (1-based) goroutine arrival parks until Release.
func At(hook string, nth int) *Park {
	p := &Park{Hook: hook, reached: make(chan struct{}), release: make(chan struct{}), nth: nth}
	p.restore = verifhook.Set(hook, func(string, interface{}) {
		p.mu.Lock()
		p.hits++
		h := p.hits
		p.mu.Unlock()
		if h != p.nth {
			return
		}
		p.once.Do(func() { close(p.reached) })
		<-p.release
	})
	return p
}

// WaitReached waits until the hook was reached (true) or the watchdog expired (false: the
// operation never got there — inconclusive, not a verdict).
func (p *Park) WaitReached(watchdog time.Duration) bool {
	select {
	case <-p.reached:
		return true
	case <-time.After(watchdog):
		return false
	}
}

// Reached reports without waiting.
func (p *Park) Reached() bool {
	select {
	case <-p.reached:
		return true
	default:
		return false
	}
}

// Release lets the parked goroutine continue and disarms the hook.
func (p *Park) Release() {
	p.relOnce.Do(func() {
		close(p.release)
		p.restore()
	})
}

// Done waits for ch with a watchdog; false = still running (the caller decides whether that
// means "serialised by the code": release the parked operation and wait again).
func Done(ch <-chan struct{}, watchdog time.Duration) bool {
	select {
	case <-ch:
		return true
	case <-time.After(watchdog):
		return false
	}
}

// ---- blocked-detector (DESIGN §4 M2) -----------------------------------------------------
// It only decides whether an interleaving was explored or is serialised by the code — never a
// verdict — so a heuristic over the runtime's goroutine dump is acceptable here.

type gState struct {
	header string // e.g. "sync.RWMutex.Lock"
	stack  string
}

func dump() []gState {
	buf := make([]byte, 1<<20)
	for {
		n := runtime.Stack(buf, true)
		if n < len(buf) {
			buf = buf[:n]
			break
		}
		buf = make([]byte, 2*len(buf))
	}
	var out []gState
	for _, blk := range strings.Split(string(buf), "\n\n") {
		nl := strings.IndexByte(blk, '\n')
		if nl < 0 || !strings.HasPrefix(blk, "goroutine ") {
			continue
		}
		h := blk[:nl]
		lb, rb := strings.IndexByte(h, '['), strings.LastIndexByte(h, ']')
		if lb < 0 || rb < lb {
			continue
		}
		st := h[lb+1 : rb]
		if c := strings.IndexByte(st, ','); c >= 0 {
			st = st[:c]
		}
		out = append(out, gState{header: st, stack: blk[nl+1:]})
	}
	return out
}

var waitStates = map[string]bool{
	"sync.RWMutex.Lock": true, "sync.RWMutex.RLock": true, "sync.Mutex.Lock": true, "semacquire": true,
	"sync.Cond.Wait": true, "sync.WaitGroup.Wait": true, "chan receive": true, "chan send": true, "select": true,
	"chan receive (nil chan)": true, "select (no cases)": true,
}

// blockedNow reports whether the goroutine whose stack contains marker is in a wait state while
// no other goroutine is executing subject code (so only releasing the parked one can wake it).
func blockedNow(marker string) (bool, string) {
	gs := dump()
	var target *gState
	for i := range gs {
		if strings.Contains(gs[i].stack, marker) {
			target = &gs[i]
			break
		}
	}
	if target == nil || !waitStates[target.header] {
		return false, ""
	}
	for i := range gs {
		g := &gs[i]
		if g == target {
			continue
		}
		busy := g.header == "running" || g.header == "runnable" || g.header == "syscall" || g.header == "IO wait"
		if busy && strings.Contains(g.stack, "influxdata/influxdb/v2/") && !strings.Contains(g.stack, "sched.blockedNow") {
			return false, ""
		}
	}
	// innermost subject frame, for the record
	site := ""
	for _, ln := range strings.Split(target.stack, "\n") {
		if strings.HasPrefix(ln, "github.com/influxdata/influxdb/v2/") {
			site = ln
			if p := strings.IndexByte(site, '('); p > 0 {
				site = site[:strings.LastIndexByte(site, '(')]
			}
			break
		}
	}
	return true, target.header + " in " + strings.TrimPrefix(site, "github.com/influxdata/influxdb/v2/")
}

// DoneOrBlocked waits until ch is closed (returns true,""), or the goroutine identified by
// marker (a function name on its stack) is stably blocked with the process otherwise quiescent
// (returns false, site), or the watchdog expires (false, "watchdog").
func DoneOrBlocked(ch <-chan struct{}, marker string, watchdog time.Duration) (bool, string) {
	deadline := time.Now().Add(watchdog)
	stable := 0
	last := ""
	for time.Now().Before(deadline) {
		select {
		case <-ch:
			return true, ""
		case <-time.After(8 * time.Millisecond):
		}
		ok, site := blockedNow(marker)
		if ok && (stable == 0 || site == last) {
			stable++
			last = site
			if stable >= 6 {
				return false, site
			}
		} else {
			stable = 0
		}
	}
	select {
	case <-ch:
		return true, ""
	default:
	}
	return false, "watchdog"
}
