package vkit

import (
	"bytes"
	"context"
	"fmt"
	"os"
	"os/exec"
	"testing"
	"time"
)

// Child-process isolation (DESIGN §3): a panic, `fatal error: checkptr`, SIGBUS on a truncated
// mmap or an unrecoverable runtime error kills the whole process and every monitor in it.
// A group's TestMain calls ChildMain with its handlers; a check calls RunChild to execute a
// handler in a re-exec of the same test binary.

type ChildHandler func(payload []byte) (out []byte, err error)

// ChildMain dispatches to a handler when the process was started by RunChild; otherwise it
// runs the tests.
func ChildMain(m *testing.M, handlers map[string]ChildHandler) {
	name := os.Getenv("VERIF_CHILD")
	if name == "" {
		os.Exit(m.Run())
	}
	h := handlers[name]
	if h == nil {
		fmt.Fprintf(os.Stderr, "unknown child handler %q\n", name)
		os.Exit(97)
	}
	payload, err := os.ReadFile(os.Getenv("VERIF_CHILD_IN"))
	if err != nil {
		fmt.Fprintf(os.Stderr, "child input: %v\n", err)
		os.Exit(97)
	}
	out, err := h(payload)
	if err != nil {
		fmt.Fprintf(os.Stderr, "CHILD-ERROR: %v\n", err)
		os.WriteFile(os.Getenv("VERIF_CHILD_OUT"), out, 0o644)
		os.Exit(96)
	}
	if err := os.WriteFile(os.Getenv("VERIF_CHILD_OUT"), out, 0o644); err != nil {
		os.Exit(97)
	}
	os.Exit(0)
}

type ChildResult struct {
	Out          []byte // what the handler returned
	Log          []byte // combined stdout/stderr (panic traces, race reports, goroutine dumps)
	ExitCode     int
	TimedOut     bool // the wall-clock watchdog fired: inconclusive, never a verdict by itself
	HandlerError bool // handler returned an error (exit 96)
}

// Crashed reports a process-fatal event (panic, fatal error, signal) in the child.
func (c ChildResult) Crashed() bool {
	return !c.TimedOut && c.ExitCode != 0 && c.ExitCode != 96
}

// RunChild executes handler `name` in a fresh process of the same test binary.
func RunChild(name string, payload []byte, watchdog time.Duration, extraEnv ...string) (ChildResult, error) {
	dir, err := os.MkdirTemp("", "vchild")
	if err != nil {
		return ChildResult{}, err
	}
	defer os.RemoveAll(dir)
	in, out := dir+"/in", dir+"/out"
	if err := os.WriteFile(in, payload, 0o644); err != nil {
		return ChildResult{}, err
	}
	ctx, cancel := context.WithTimeout(context.Background(), watchdog)
	defer cancel()
	cmd := exec.CommandContext(ctx, os.Args[0])
	cmd.Env = append(os.Environ(), "VERIF_CHILD="+name, "VERIF_CHILD_IN="+in, "VERIF_CHILD_OUT="+out)
	cmd.Env = append(cmd.Env, extraEnv...)
	var log bytes.Buffer
	cmd.Stdout, cmd.Stderr = &log, &log
	cmd.WaitDelay = 5 * time.Second
	rerr := cmd.Run()
	res := ChildResult{Log: log.Bytes()}
	if ctx.Err() != nil {
		res.TimedOut = true
	}
	if cmd.ProcessState != nil {
		res.ExitCode = cmd.ProcessState.ExitCode()
	} else if rerr != nil {
		return res, rerr
	}
	res.HandlerError = res.ExitCode == 96
	res.Out, _ = os.ReadFile(out)
	return res, nil
}
