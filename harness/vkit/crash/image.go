// Package crash is the crash-image engine (DESIGN §4 M3): it copies a live directory tree at
// operation boundaries and at hook points inside an operation (each copy is the file-system
// state a process death at that point would leave behind), and derives torn-tail variants of
// files that are appended in place.
package crash

import (
	"bytes"
	"fmt"
	"io"
	"os"
	"path/filepath"
	"sort"
	"sync"
	"syscall"
)

// CopyTree copies src to dst. Large files with a zero tail (pre-allocated segments) are written
// sparsely. Files that vanish while copying are skipped (concurrent unlink = a crash state too).
func CopyTree(src, dst string) error {
	return filepath.Walk(src, func(p string, fi os.FileInfo, err error) error {
		if err != nil {
			if os.IsNotExist(err) {
				return nil
			}
			return err
		}
		rel, _ := filepath.Rel(src, p)
		t := filepath.Join(dst, rel)
		if fi.IsDir() {
			return os.MkdirAll(t, 0o755)
		}
		if !fi.Mode().IsRegular() {
			return nil
		}
		return copyFile(p, t, fi.Size())
	})
}

const (
	seekData = 3
	seekHole = 4
)

// copyFile copies only the data extents of src (SEEK_DATA/SEEK_HOLE), so pre-allocated,
// mostly-empty segment files cost nothing; falls back to a plain copy when the file system
// does not support extent seeking.
func copyFile(src, dst string, size int64) error {
	in, err := os.Open(src)
	if err != nil {
		if os.IsNotExist(err) {
			return nil
		}
		return err
	}
	defer in.Close()
	out, err := os.OpenFile(dst, os.O_CREATE|os.O_TRUNC|os.O_WRONLY, 0o644)
	if err != nil {
		return err
	}
	defer out.Close()
	if size < 1<<16 {
		b := make([]byte, size)
		n, _ := io.ReadFull(in, b)
		_, err := out.Write(b[:n])
		return err
	}
	fd := int(in.Fd())
	off := int64(0)
	buf := make([]byte, 1<<16)
	for off < size {
		ds, err := syscall.Seek(fd, off, seekData)
		if err != nil {
			if err == syscall.ENXIO { // no more data
				break
			}
			// unsupported: plain copy of the rest
			ds = off
			if _, err := in.Seek(ds, io.SeekStart); err != nil {
				return err
			}
			if _, err := out.Seek(ds, io.SeekStart); err != nil {
				return err
			}
			if _, err := io.Copy(out, in); err != nil {
				return err
			}
			return out.Truncate(size)
		}
		he, err := syscall.Seek(fd, ds, seekHole)
		if err != nil || he > size {
			he = size
		}
		for p := ds; p < he; {
			n := int64(len(buf))
			if he-p < n {
				n = he - p
			}
			m, rerr := in.ReadAt(buf[:n], p)
			if m > 0 {
				// skip all-zero chunks so that zero pages stay holes
				if len(bytes.TrimRight(buf[:m], "\x00")) > 0 {
					if _, err := out.WriteAt(buf[:m], p); err != nil {
						return err
					}
				}
				p += int64(m)
			}
			if rerr != nil {
				if rerr == io.EOF {
					break
				}
				return rerr
			}
		}
		off = he
	}
	return out.Truncate(size)
}

// Image is one captured crash state.
type Image struct {
	ID    int
	Dir   string
	Label string // "boundary" or the hook name
	Op    int    // index of the operation in flight (hook images) or just completed (boundary)
	Nth   int    // nth image taken during that op
}

// Imager captures images of Root under Store.
type Imager struct {
	Root  string
	Store string
	mu    sync.Mutex
	n     int
	Max   int // cap on images per Reset window (0 = unlimited)
	taken int
}

func (im *Imager) ResetWindow() { im.mu.Lock(); im.taken = 0; im.mu.Unlock() }

// Take copies the tree now. Safe to call from hook callbacks on several goroutines.
func (im *Imager) Take(label string, op int) (*Image, error) {
	im.mu.Lock()
	defer im.mu.Unlock()
	if im.Max > 0 && im.taken >= im.Max {
		return nil, nil
	}
	im.n++
	im.taken++
	dir := filepath.Join(im.Store, fmt.Sprintf("img%05d", im.n))
	if err := CopyTree(im.Root, dir); err != nil {
		return nil, err
	}
	return &Image{ID: im.n, Dir: dir, Label: label, Op: op, Nth: im.taken}, nil
}

// FileSizes lists regular files (relative path -> size).
func FileSizes(dir string) map[string]int64 {
	out := map[string]int64{}
	filepath.Walk(dir, func(p string, fi os.FileInfo, err error) error {
		if err == nil && fi.Mode().IsRegular() {
			rel, _ := filepath.Rel(dir, p)
			out[rel] = fi.Size()
		}
		return nil
	})
	return out
}

// Grown returns the files of `after` that are new or longer than in `before` and match pred,
// with the size they had before (0 if new), sorted by path.
type GrownFile struct {
	Rel      string
	Old, New int64
}

func Grown(before, after string, pred func(rel string) bool) []GrownFile {
	b, a := FileSizes(before), FileSizes(after)
	var out []GrownFile
	for rel, n := range a {
		if pred != nil && !pred(rel) {
			continue
		}
		if o := b[rel]; n > o {
			out = append(out, GrownFile{rel, o, n})
		}
	}
	sort.Slice(out, func(i, j int) bool { return out[i].Rel < out[j].Rel })
	return out
}

// Tear rewrites file so that only `keep` bytes of its content survive; fill selects what
// follows: "cut" (file ends there), "zero" (zero-filled to full), "garbage" (0x01-filled: for a
// WAL segment that reads as a valid entry type with a bogus 16 MiB length), "garbageA5"
// (0xA5-filled: invalid type, 2.7 GiB length — costly for readers that allocate first).
func Tear(path string, keep int64, full int64, fill string) error {
	switch fill {
	case "cut":
		return os.Truncate(path, keep)
	case "zero", "garbage", "garbageA5":
		f, err := os.OpenFile(path, os.O_WRONLY, 0o644)
		if err != nil {
			return err
		}
		defer f.Close()
		pad := make([]byte, full-keep)
		if fill != "zero" {
			fb := byte(0x01)
			if fill == "garbageA5" {
				fb = 0xA5
			}
			for i := range pad {
				pad[i] = fb
			}
		}
		if _, err := f.WriteAt(pad, keep); err != nil {
			return err
		}
		return f.Truncate(full)
	}
	return fmt.Errorf("unknown fill %q", fill)
}

// Offsets returns the tear offsets within a new region of n bytes: every byte when all is set,
// otherwise a stride set that covers record header, middle and end.
func Offsets(n int64, all bool) []int64 {
	if n <= 0 {
		return nil
	}
	if all {
		out := make([]int64, 0, n)
		for j := int64(0); j < n; j++ {
			out = append(out, j)
		}
		return out
	}
	cand := []int64{0, 1, 4, 5, 6, n / 2, n - 1}
	seen := map[int64]bool{}
	var out []int64
	for _, j := range cand {
		if j >= 0 && j < n && !seen[j] {
			seen[j] = true
			out = append(out, j)
		}
	}
	sort.Slice(out, func(i, j int) bool { return out[i] < out[j] })
	return out
}
