package vkit

import "testing"

func TestSelfRand(t *testing.T) {
	a, b := CaseRand(1, "C01", 3), CaseRand(1, "C01", 3)
	for i := 0; i < 10; i++ {
		if a.Uint64() != b.Uint64() {
			t.Fatal("not deterministic")
		}
	}
	if CaseRand(1, "C01", 3).Uint64() == CaseRand(1, "C01", 4).Uint64() {
		t.Fatal("cases collide")
	}
	if !matchFeature("a|b", "b") || matchFeature("a|b", "ab") {
		t.Fatal("matchFeature")
	}
}
