package sk

import "time"

func timeOf(ns int64) time.Time { return time.Unix(0, ns).UTC() }
