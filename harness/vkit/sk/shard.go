// Package sk (shard kit) opens a real tsdb.Shard (tsm1 engine, tsi1 index, series file, WAL)
// for the harness and provides the reference point model M1 plus the cursor-draining reader
// (DESIGN §4 M1).
package sk

import (
	"context"
	"fmt"
	"os"
	"path/filepath"
	"sort"
	"time"

	"github.com/influxdata/influxdb/v2/models"
	"github.com/influxdata/influxdb/v2/pkg/limiter"
	"github.com/influxdata/influxdb/v2/tsdb"
	"github.com/influxdata/influxdb/v2/tsdb/cursors"
	_ "github.com/influxdata/influxdb/v2/tsdb/engine"
	"github.com/influxdata/influxdb/v2/tsdb/engine/tsm1"
	_ "github.com/influxdata/influxdb/v2/tsdb/index"
	"github.com/influxdata/influxql"
)

type Opts struct {
	NoWAL      bool
	Background bool // leave the engine's own compaction goroutines on
	// tiny thresholds for background mode
	CacheSnapshotSize uint64
	CacheColdDuration time.Duration
	CacheMaxSize      uint64
	MaxIndexLogSize   int64
	// WALSegmentSize > 0 makes the WAL roll its segment file at that many bytes (default 10 MiB)
	WALSegmentSize int
	Tweak          func(o *tsdb.EngineOptions)
}

type Shard struct {
	Dir   string
	Opt   Opts
	Sh    *tsdb.Shard
	SFile *tsdb.SeriesFile
	ID    uint64
}

type idSets struct{ s []*tsdb.SeriesIDSet }

func (a idSets) ForEach(f func(ids *tsdb.SeriesIDSet)) error {
	for _, v := range a.s {
		f(v)
	}
	return nil
}

// Open opens (creating if necessary) a shard rooted at dir.
func Open(dir string, o Opts) (*Shard, error) {
	s := &Shard{Dir: dir, Opt: o, ID: 1}
	if err := s.open(); err != nil {
		return nil, err
	}
	return s, nil
}

func (s *Shard) DataPath() string   { return filepath.Join(s.Dir, "data", "db0", "rp0", "1") }
func (s *Shard) WALPath() string    { return filepath.Join(s.Dir, "wal", "db0", "rp0", "1") }
func (s *Shard) SeriesPath() string { return filepath.Join(s.Dir, "data", "db0", "_series") }

func (s *Shard) open() error {
	sf := tsdb.NewSeriesFile(s.SeriesPath())
	if err := sf.Open(); err != nil {
		return fmt.Errorf("series file: %w", err)
	}
	opt := tsdb.NewEngineOptions()
	opt.IndexVersion = tsdb.TSI1IndexName
	opt.Config.WALDir = filepath.Join(s.Dir, "wal")
	opt.WALEnabled = !s.Opt.NoWAL
	opt.SeriesIDSets = idSets{[]*tsdb.SeriesIDSet{tsdb.NewSeriesIDSet()}}
	opt.MetricsDisabled = true
	if s.Opt.CacheSnapshotSize > 0 {
		opt.Config.CacheSnapshotMemorySize = tomlSize(s.Opt.CacheSnapshotSize)
	}
	if s.Opt.CacheColdDuration > 0 {
		opt.Config.CacheSnapshotWriteColdDuration = tomlDur(s.Opt.CacheColdDuration)
	}
	if s.Opt.CacheMaxSize > 0 {
		opt.Config.CacheMaxMemorySize = tomlSize(s.Opt.CacheMaxSize)
	}
	if s.Opt.MaxIndexLogSize > 0 {
		opt.Config.MaxIndexLogFileSize = tomlSize(uint64(s.Opt.MaxIndexLogSize))
	}
	if s.Opt.Background {
		// what tsdb.Store sets up; without limiters the engine never starts a compaction
		opt.CompactionLimiter = limiter.NewFixed(4)
		opt.OptimizedCompactionLimiter = limiter.NewFixed(2)
	}
	if s.Opt.Tweak != nil {
		s.Opt.Tweak(&opt)
	}
	sh := tsdb.NewShard(s.ID, s.DataPath(), s.WALPath(), sf, opt)
	if !s.Opt.Background {
		// no background goroutines; the Compactor itself stays open so the harness owns the schedule
		sh.CompactionDisabled = true
	}
	if err := sh.Open(context.Background()); err != nil {
		sf.Close()
		return err
	}
	s.Sh, s.SFile = sh, sf
	if s.Opt.WALSegmentSize > 0 && !s.Opt.NoWAL {
		s.Eng().WAL.SegmentSize = s.Opt.WALSegmentSize // nothing is writing yet
	}
	return nil
}

// Close closes shard and series file WITHOUT flushing the cache (what a restart sees).
func (s *Shard) Close() error {
	err := s.Sh.Close()
	if e := s.SFile.Close(); err == nil {
		err = e
	}
	return err
}

func (s *Shard) Reopen() error {
	if err := s.Close(); err != nil {
		return err
	}
	return s.open()
}

func (s *Shard) Eng() *tsm1.Engine {
	e, err := s.Sh.Engine()
	if err != nil {
		panic(err)
	}
	return e.(*tsm1.Engine)
}

func (s *Shard) Write(pts []models.Point) error {
	return s.Sh.WritePoints(context.Background(), pts)
}

// SnapshotFailing runs the engine's snapshot path with snapshots disabled on the compactor, so
// the write of the snapshot fails and the cache retains it for a retry. Returns the error the
// engine reported (nil when the cache was empty and nothing had to be written).
func (s *Shard) SnapshotFailing() error {
	e := s.Eng()
	e.Compactor.DisableSnapshots()
	defer e.Compactor.EnableSnapshots()
	return e.WriteSnapshot()
}

// Snapshot flushes the cache to a level-1 TSM file through the engine's own path.
func (s *Shard) Snapshot() error { return s.Eng().WriteSnapshot() }

type keyIter struct {
	keys [][]byte
}
type keyElem struct {
	name []byte
	tags models.Tags
}

func (e keyElem) Name() []byte        { return e.name }
func (e keyElem) Tags() models.Tags   { return e.tags }
func (e keyElem) Deleted() bool       { return false }
func (e keyElem) Expr() influxql.Expr { return nil }
func (it *keyIter) Close() error      { return nil }
func (it *keyIter) Next() (tsdb.SeriesElem, error) {
	if len(it.keys) == 0 {
		return nil, nil
	}
	name, tags := models.ParseKeyBytes(it.keys[0])
	it.keys = it.keys[1:]
	return keyElem{name, tags}, nil
}

// DeleteRange deletes [min,max] of the given series keys through Shard.DeleteSeriesRange.
func (s *Shard) DeleteRange(seriesKeys []string, min, max int64) error {
	ks := make([][]byte, len(seriesKeys))
	for i, k := range seriesKeys {
		ks[i] = []byte(k)
	}
	sort.Slice(ks, func(i, j int) bool { return string(ks[i]) < string(ks[j]) })
	return s.Sh.DeleteSeriesRange(context.Background(), &keyIter{ks}, min, max)
}

// Levels plans with the engine's own planner (groups are acquired by the planner).
func (s *Shard) PlanLevel(level int) []tsm1.CompactionGroup {
	e := s.Eng()
	g, _ := e.CompactionPlan.PlanLevel(e.CompactionPlan.FindGenerations(), level)
	return g
}

// CompactLevel plans level and runs every group through the engine's strategy. Returns #groups.
func (s *Shard) CompactLevel(level int, fast bool, ppb int) int {
	e := s.Eng()
	groups := s.PlanLevel(level)
	for _, g := range groups {
		e.VerifCompactGroup(g, fast, level, ppb)
	}
	e.CompactionPlan.Release(groups)
	return len(groups)
}

// CompactFull forces a full plan and runs it.
func (s *Shard) CompactFull(ppb int) int {
	e := s.Eng()
	e.CompactionPlan.ForceFull()
	groups, _ := e.CompactionPlan.Plan(e.CompactionPlan.FindGenerations(), time.Now().Add(-24*time.Hour))
	for _, g := range groups {
		e.VerifFullCompactGroup(g, ppb)
	}
	e.CompactionPlan.Release(groups)
	return len(groups)
}

// CompactOptimize plans an optimize compaction and runs it.
func (s *Shard) CompactOptimize(ppb int) int {
	e := s.Eng()
	groups, _, _ := e.CompactionPlan.PlanOptimize(e.CompactionPlan.FindGenerations(), time.Now().Add(-24*time.Hour))
	for _, g := range groups {
		e.VerifOptimizeCompactGroup(g, ppb)
	}
	e.CompactionPlan.Release(groups)
	return len(groups)
}

// Generations returns the live TSM file paths grouped by generation, in generation order.
func (s *Shard) Generations() [][]string {
	var out [][]string
	last := -1
	for _, f := range s.Eng().FileStore.Files() {
		gen, _, err := tsm1.DefaultParseFileName(f.Path())
		if err != nil {
			continue
		}
		if gen != last {
			out = append(out, nil)
			last = gen
		}
		out[len(out)-1] = append(out[len(out)-1], f.Path())
	}
	return out
}

// CompactRun compacts the contiguous run of generations [from, from+n) — a group the planner
// could legitimately hand out — through the engine's own strategy object.
// mode: "fast", "level", "full", "optimize". Returns false if the run does not exist.
func (s *Shard) CompactRun(from, n int, mode string, ppb int) bool {
	gens := s.Generations()
	if n < 1 || from < 0 || from+n > len(gens) {
		return false
	}
	var group tsm1.CompactionGroup
	for _, g := range gens[from : from+n] {
		group = append(group, g...)
	}
	e := s.Eng()
	switch mode {
	case "fast":
		e.VerifCompactGroup(group, true, 1, ppb)
	case "level":
		e.VerifCompactGroup(group, false, 3, ppb)
	case "full":
		e.VerifFullCompactGroup(group, ppb)
	default:
		e.VerifOptimizeCompactGroup(group, ppb)
	}
	return true
}

// KeyLocations counts the TSM index entries (block locations) of one series field across all
// live files.
func (s *Shard) KeyLocations(seriesKey, field string) int {
	key := tsm1.SeriesFieldKeyBytes(seriesKey, field)
	n := 0
	for _, f := range s.Eng().FileStore.Files() {
		n += len(f.Entries(key))
	}
	return n
}

func (s *Shard) TSMFiles() []string {
	var out []string
	for _, f := range s.Eng().FileStore.Files() {
		out = append(out, filepath.Base(f.Path()))
	}
	return out
}

// Pt is one observed (timestamp, value).
type Pt struct {
	T int64
	V Val
}

// Read drains the real cursor for (series, field) over [lo,hi] in the requested direction.
func (s *Shard) Read(seriesKey string, field string, lo, hi int64, asc bool) ([]Pt, error) {
	ctx := context.Background()
	ci, err := s.Sh.CreateCursorIterator(ctx)
	if err != nil {
		return nil, err
	}
	name, tags := models.ParseKeyBytes([]byte(seriesKey))
	cur, err := ci.Next(ctx, &cursors.CursorRequest{Name: name, Tags: tags, Field: field, Ascending: asc, StartTime: lo, EndTime: hi})
	if err != nil {
		return nil, err
	}
	if cur == nil {
		return nil, nil
	}
	defer cur.Close()
	return DrainCursor(cur)
}

// DrainCursor reads every array of a typed array cursor.
func DrainCursor(cur cursors.Cursor) ([]Pt, error) {
	var out []Pt
	switch c := cur.(type) {
	case cursors.IntegerArrayCursor:
		for {
			a := c.Next()
			if a.Len() == 0 {
				break
			}
			for i := range a.Timestamps {
				out = append(out, Pt{a.Timestamps[i], IntVal(a.Values[i])})
			}
		}
	case cursors.FloatArrayCursor:
		for {
			a := c.Next()
			if a.Len() == 0 {
				break
			}
			for i := range a.Timestamps {
				out = append(out, Pt{a.Timestamps[i], FloatVal(a.Values[i])})
			}
		}
	case cursors.UnsignedArrayCursor:
		for {
			a := c.Next()
			if a.Len() == 0 {
				break
			}
			for i := range a.Timestamps {
				out = append(out, Pt{a.Timestamps[i], UintVal(a.Values[i])})
			}
		}
	case cursors.StringArrayCursor:
		for {
			a := c.Next()
			if a.Len() == 0 {
				break
			}
			for i := range a.Timestamps {
				out = append(out, Pt{a.Timestamps[i], StrVal(a.Values[i])})
			}
		}
	case cursors.BooleanArrayCursor:
		for {
			a := c.Next()
			if a.Len() == 0 {
				break
			}
			for i := range a.Timestamps {
				out = append(out, Pt{a.Timestamps[i], BoolVal(a.Values[i])})
			}
		}
	default:
		return nil, fmt.Errorf("unknown cursor type %T", cur)
	}
	return out, cur.Err()
}

// CopyTree copies a directory tree (regular files by content; crash images must not share
// inodes with files the engine may still append to).
func CopyTree(src, dst string) error {
	return filepath.Walk(src, func(p string, fi os.FileInfo, err error) error {
		if err != nil {
			if os.IsNotExist(err) {
				return nil
			}
			return err
		}
		rel, _ := filepath.Rel(src, p)
		t := filepath.Join(dst, rel)
		if fi.IsDir() {
			return os.MkdirAll(t, 0o755)
		}
		if !fi.Mode().IsRegular() {
			return nil
		}
		b, err := os.ReadFile(p)
		if err != nil {
			if os.IsNotExist(err) {
				return nil
			}
			return err
		}
		return os.WriteFile(t, b, 0o644)
	})
}
