package sk

import (
	"time"

	"github.com/influxdata/influxdb/v2/toml"
)

func tomlSize(n uint64) toml.Size           { return toml.Size(n) }
func tomlDur(d time.Duration) toml.Duration { return toml.Duration(d) }
