package sk

import (
	"fmt"
	"math"
	"sort"

	"github.com/influxdata/influxdb/v2/models"
)

// MinT/MaxT bound the representable point timestamps (models.MinNanoTime/MaxNanoTime).
const (
	MinT = models.MinNanoTime
	MaxT = models.MaxNanoTime
)

// Val is a typed field value; floats are compared by bit pattern.
type Val struct {
	K byte // 'i','u','f','s','b'
	I int64
	U uint64
	F uint64
	S string
	B bool
}

func IntVal(v int64) Val     { return Val{K: 'i', I: v} }
func UintVal(v uint64) Val   { return Val{K: 'u', U: v} }
func FloatVal(v float64) Val { return Val{K: 'f', F: math.Float64bits(v)} }
func StrVal(v string) Val    { return Val{K: 's', S: v} }
func BoolVal(v bool) Val     { return Val{K: 'b', B: v} }

func (v Val) String() string {
	switch v.K {
	case 'i':
		return fmt.Sprintf("%di", v.I)
	case 'u':
		return fmt.Sprintf("%du", v.U)
	case 'f':
		return fmt.Sprintf("%v(f)", math.Float64frombits(v.F))
	case 's':
		return fmt.Sprintf("%q", v.S)
	case 'b':
		return fmt.Sprint(v.B)
	}
	return "?"
}

// Iface returns the value as models.NewPoint wants it.
func (v Val) Iface() interface{} {
	switch v.K {
	case 'i':
		return v.I
	case 'u':
		return v.U
	case 'f':
		return math.Float64frombits(v.F)
	case 's':
		return v.S
	case 'b':
		return v.B
	}
	return nil
}

// Model is the reference content of a shard: series key -> field -> ts -> value (M1).
type Model struct {
	S map[string]map[string]*Field
}
type Field struct {
	K byte
	P map[int64]Val
	// Old / Del remember, per timestamp, the values that were overwritten / deleted, so that a
	// mismatch can be classified ("stale overwritten value", "deleted point visible").
	Old map[int64][]Val
	Del map[int64][]Val
}

func NewModel() *Model { return &Model{S: map[string]map[string]*Field{}} }

func (m *Model) Clone() *Model {
	c := NewModel()
	for sk, fs := range m.S {
		c.S[sk] = map[string]*Field{}
		for fk, f := range fs {
			nf := &Field{K: f.K, P: make(map[int64]Val, len(f.P)), Old: map[int64][]Val{}, Del: map[int64][]Val{}}
			for t, v := range f.P {
				nf.P[t] = v
			}
			for t, v := range f.Old {
				nf.Old[t] = append([]Val(nil), v...)
			}
			for t, v := range f.Del {
				nf.Del[t] = append([]Val(nil), v...)
			}
			c.S[sk][fk] = nf
		}
	}
	return c
}

// Put applies one field value (last write wins).
func (m *Model) Put(series, field string, t int64, v Val) {
	fs := m.S[series]
	if fs == nil {
		fs = map[string]*Field{}
		m.S[series] = fs
	}
	f := fs[field]
	if f == nil {
		f = &Field{K: v.K, P: map[int64]Val{}, Old: map[int64][]Val{}, Del: map[int64][]Val{}}
		fs[field] = f
	}
	if old, ok := f.P[t]; ok && old != v {
		f.Old[t] = append(f.Old[t], old)
	}
	f.P[t] = v
}

// Delete removes [min,max] from every field of the series.
func (m *Model) Delete(series string, min, max int64) {
	for _, f := range m.S[series] {
		for t, v := range f.P {
			if t >= min && t <= max {
				f.Del[t] = append(f.Del[t], v)
				delete(f.P, t)
			}
		}
	}
}

// Read returns the expected cursor output.
func (m *Model) Read(series, field string, lo, hi int64, asc bool) []Pt {
	f := m.S[series][field]
	if f == nil {
		return nil
	}
	var out []Pt
	for t, v := range f.P {
		if t >= lo && t <= hi {
			out = append(out, Pt{t, v})
		}
	}
	sort.Slice(out, func(i, j int) bool {
		if asc {
			return out[i].T < out[j].T
		}
		return out[i].T > out[j].T
	})
	return out
}

func (m *Model) SeriesKeys() []string {
	var ks []string
	for k := range m.S {
		ks = append(ks, k)
	}
	sort.Strings(ks)
	return ks
}

func (m *Model) Fields(series string) []string {
	var ks []string
	for k := range m.S[series] {
		ks = append(ks, k)
	}
	sort.Strings(ks)
	return ks
}

// Diff compares an observed cursor read with the model; "" means equal.
func Diff(want, got []Pt) string {
	if len(want) != len(got) {
		return fmt.Sprintf("length: want %d got %d; want=%s got=%s", len(want), len(got), FmtPts(want), FmtPts(got))
	}
	for i := range want {
		if want[i].T != got[i].T || want[i].V != got[i].V {
			return fmt.Sprintf("index %d: want (%d,%s) got (%d,%s); want=%s got=%s", i, want[i].T, want[i].V, got[i].T, got[i].V, FmtPts(want), FmtPts(got))
		}
	}
	return ""
}

func FmtPts(p []Pt) string {
	s := "["
	for i, x := range p {
		if i > 0 {
			s += " "
		}
		if i >= 24 {
			s += fmt.Sprintf("…+%d", len(p)-i)
			break
		}
		s += fmt.Sprintf("%d:%s", x.T, x.V)
	}
	return s + "]"
}

// SeriesKey builds the canonical series key of a measurement and tag set.
func SeriesKey(name string, tags map[string]string) string {
	return string(models.MakeKey([]byte(name), models.NewTags(tags)))
}

// Point builds a models.Point; panics on invalid input (generator bug).
func Point(name string, tags map[string]string, fields map[string]Val, t int64) models.Point {
	f := models.Fields{}
	for k, v := range fields {
		f[k] = v.Iface()
	}
	p, err := models.NewPoint(name, models.NewTags(tags), f, timeOf(t))
	if err != nil {
		panic(err)
	}
	return p
}

func p2(p models.Point) []models.Point { return []models.Point{p} }

// Classify names the kind of difference between the expected and the observed read of one
// (series, field): "stale_value" (same timestamps, every wrong value is one that was
// overwritten earlier), "deleted_point_visible" (extra timestamps/values that a delete
// removed), "missing_point", or "other".
func (m *Model) Classify(series, field string, want, got []Pt) string {
	f := m.S[series][field]
	if f == nil {
		return "other"
	}
	wm := map[int64]Val{}
	for _, p := range want {
		wm[p.T] = p.V
	}
	gm := map[int64]Val{}
	for _, p := range got {
		gm[p.T] = p.V
	}
	if len(gm) != len(got) {
		return "other" // duplicates
	}
	in := func(vs []Val, v Val) bool {
		for _, x := range vs {
			if x == v {
				return true
			}
		}
		return false
	}
	stale, deleted, missing, other := 0, 0, 0, 0
	for t, gv := range gm {
		wv, ok := wm[t]
		switch {
		case ok && wv == gv:
		case ok && in(f.Old[t], gv):
			stale++
		case !ok && (in(f.Del[t], gv) || in(f.Old[t], gv)):
			// a deleted cell shows its last value or one that had been overwritten before the delete
			deleted++
		default:
			other++
		}
	}
	for t := range wm {
		if _, ok := gm[t]; !ok {
			missing++
		}
	}
	switch {
	case other > 0:
		return "other"
	case stale > 0 && deleted == 0 && missing == 0:
		return "stale_value"
	case deleted > 0 && stale == 0 && missing == 0:
		return "deleted_point_visible"
	case missing > 0 && stale == 0 && deleted == 0:
		return "missing_point"
	}
	return "other"
}
