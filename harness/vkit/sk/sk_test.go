package sk

import (
	"testing"
)

func TestSelfShardKit(t *testing.T) {
	dir := t.TempDir()
	s, err := Open(dir, Opts{})
	if err != nil {
		t.Fatal(err)
	}
	m := NewModel()
	key := SeriesKey("cpu", map[string]string{"h": "a"})
	for i := 0; i < 10; i++ {
		p := Point("cpu", map[string]string{"h": "a"}, map[string]Val{"v": IntVal(int64(i))}, int64(i*10))
		if err := s.Write(p2(p)); err != nil {
			t.Fatal(err)
		}
		m.Put(key, "v", int64(i*10), IntVal(int64(i)))
	}
	chk := func() {
		for _, asc := range []bool{true, false} {
			got, err := s.Read(key, "v", MinT, MaxT, asc)
			if err != nil {
				t.Fatal(err)
			}
			if d := Diff(m.Read(key, "v", MinT, MaxT, asc), got); d != "" {
				t.Fatal(d)
			}
		}
	}
	chk()
	if err := s.Snapshot(); err != nil {
		t.Fatal(err)
	}
	chk()
	if len(s.TSMFiles()) != 1 {
		t.Fatal(s.TSMFiles())
	}
	p := Point("cpu", map[string]string{"h": "a"}, map[string]Val{"v": IntVal(99)}, 50)
	s.Write(p2(p))
	m.Put(key, "v", 50, IntVal(99))
	s.Snapshot()
	chk()
	if n := s.CompactFull(3); n != 1 {
		t.Fatal("full groups", n)
	}
	chk()
	if len(s.TSMFiles()) != 1 {
		t.Fatal(s.TSMFiles())
	}
	if err := s.DeleteRange([]string{key}, 20, 40); err != nil {
		t.Fatal(err)
	}
	m.Delete(key, 20, 40)
	chk()
	if err := s.Reopen(); err != nil {
		t.Fatal(err)
	}
	chk()
	s.Close()
}
