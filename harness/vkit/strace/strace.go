// Package strace parses `strace -f -y` logs and checks durability-ordering rules over them
// (DESIGN §4 M4): the crash-image engine cannot see a missing fsync (the page cache survives a
// process kill), the syscall trace can.
package strace

import (
	"bufio"
	"fmt"
	"os"
	"path/filepath"
	"regexp"
	"strconv"
	"strings"
)

// Event is one completed system call (unfinished/resumed pairs are joined).
type Event struct {
	Seq     int // line number of the call's entry
	EndSeq  int // line number of its completion
	PID     int
	Call    string
	Args    string
	Ret     string
	Path    string // first fd/path argument, from -y decoration or the string argument
	Path2   string // rename target
	Flags   string // open flags
	Payload string // write payload prefix (with -s N)
}

var lineRe = regexp.MustCompile(`^(\d+)\s+(.*)$`)
var callRe = regexp.MustCompile(`^([a-z0-9_]+)\((.*)\)\s+=\s+(-?\d+|\?)(.*)$`)
var unfinishedRe = regexp.MustCompile(`^([a-z0-9_]+)\((.*) <unfinished \.\.\.>$`)
var resumedRe = regexp.MustCompile(`^<\.\.\. ([a-z0-9_]+) resumed>(.*)\)\s+=\s+(-?\d+|\?)(.*)$`)
var fdPathRe = regexp.MustCompile(`^(\d+)<([^>]*)>`)
var strArgRe = regexp.MustCompile(`"((?:[^"\\]|\\.)*)"`)

// Parse reads an strace log produced with -f -y (and -o file, so every line starts with a pid).
func Parse(path string) ([]Event, error) {
	f, err := os.Open(path)
	if err != nil {
		return nil, err
	}
	defer f.Close()
	sc := bufio.NewScanner(f)
	sc.Buffer(make([]byte, 1<<20), 1<<22)
	type pend struct {
		seq  int
		call string
		args string
	}
	pending := map[int]pend{}
	var out []Event
	n := 0
	for sc.Scan() {
		n++
		m := lineRe.FindStringSubmatch(sc.Text())
		if m == nil {
			continue
		}
		pid, _ := strconv.Atoi(m[1])
		rest := m[2]
		if u := unfinishedRe.FindStringSubmatch(rest); u != nil {
			pending[pid] = pend{n, u[1], u[2]}
			continue
		}
		if r := resumedRe.FindStringSubmatch(rest); r != nil {
			p, ok := pending[pid]
			if !ok || p.call != r[1] {
				continue
			}
			delete(pending, pid)
			out = append(out, mk(p.seq, n, pid, p.call, p.args+r[2], r[3]))
			continue
		}
		if c := callRe.FindStringSubmatch(rest); c != nil {
			out = append(out, mk(n, n, pid, c[1], c[2], c[3]))
		}
	}
	return out, sc.Err()
}

func mk(seq, end, pid int, call, args, ret string) Event {
	e := Event{Seq: seq, EndSeq: end, PID: pid, Call: call, Args: args, Ret: ret}
	a := strings.TrimSpace(args)
	switch call {
	case "openat":
		// openat(AT_FDCWD</cwd>, "path", FLAGS, mode) = 7</abs/path>
		if i := strings.Index(a, ", "); i >= 0 {
			r := a[i+2:]
			if s := strArgRe.FindStringSubmatch(r); s != nil {
				e.Path = s[1]
				if j := strings.Index(r, "\", "); j >= 0 {
					fl := r[j+3:]
					if k := strings.Index(fl, ","); k >= 0 {
						fl = fl[:k]
					}
					e.Flags = fl
				}
			}
		}
	case "rename":
		ss := strArgRe.FindAllStringSubmatch(a, 2)
		if len(ss) == 2 {
			e.Path, e.Path2 = ss[0][1], ss[1][1]
		}
	case "renameat", "renameat2":
		ss := strArgRe.FindAllStringSubmatch(a, 2)
		if len(ss) == 2 {
			e.Path, e.Path2 = ss[0][1], ss[1][1]
		}
	case "unlink":
		if s := strArgRe.FindStringSubmatch(a); s != nil {
			e.Path = s[1]
		}
	case "unlinkat":
		if s := strArgRe.FindStringSubmatch(a); s != nil {
			e.Path = s[1]
		}
	default:
		if m := fdPathRe.FindStringSubmatch(a); m != nil {
			e.Path = m[2]
		}
		if call == "write" || call == "pwrite64" {
			if s := strArgRe.FindStringSubmatch(a); s != nil {
				e.Payload = s[1]
			}
		}
	}
	return e
}

// Finding is one broken rule.
type Finding struct {
	Rule   string
	Path   string
	Op     string
	Detail string
}

func (f Finding) String() string {
	return fmt.Sprintf("%s %s (op %s): %s", f.Rule, f.Path, f.Op, f.Detail)
}

// Rules describes what to check.
type Rules struct {
	// Durable reports the class of a path ("" = not a durable class).
	Durable func(path string) string
	// AckMarker is the path of the marker file; a write to it with payload "ACK <n> <kind>" marks
	// the instant operation n returned success.
	AckMarker string
	// RenameNeedsDirSync lists the classes whose rename into place must be followed by an
	// fsync of the parent directory before the operation is acknowledged.
	RenameNeedsDirSync map[string]bool
}

type fileState struct {
	lastWrite int  // entry seq of the latest write that dirtied the file
	synced    int  // entry seq up to which writes are covered by a completed fsync
	osync     bool // opened with O_SYNC / O_DSYNC: writes are durable on return
	class     string
}

// Stats counts what the checker observed.
type Stats struct {
	Events, Writes, Fsyncs, Renames, Unlinks, Acks int
	DurableWrites                                  map[string]int
}

// Check applies D1 (no durable file dirty at an ACK), D2 (rename of a durable class: source
// clean at the rename, parent directory fsynced before the ACK) and D3 (a WAL segment is
// unlinked only after a TSM file was renamed into place since the previous ACK).
func Check(evs []Event, ru Rules, osync map[string]bool) ([]Finding, Stats) {
	st := Stats{DurableWrites: map[string]int{}}
	files := map[string]*fileState{}
	type pendingDir struct {
		dir, path, class string
		seq              int
	}
	var needDir []pendingDir
	var out []Finding
	curOp := "startup"
	tsmRenamedSinceAck := false
	get := func(p string) *fileState {
		fs := files[p]
		if fs == nil {
			fs = &fileState{class: ru.Durable(p), osync: osync[p]}
			files[p] = fs
		}
		return fs
	}
	// events are applied in order of completion for syncs and renames, entry for writes
	for _, e := range evs {
		st.Events++
		if strings.HasPrefix(e.Ret, "-") && e.Ret != "-" {
			// failed call
			if e.Ret != "0" && strings.HasPrefix(e.Ret, "-1") {
				continue
			}
		}
		switch e.Call {
		case "write", "pwrite64", "writev":
			if e.Path == ru.AckMarker && strings.HasPrefix(e.Payload, "ACK ") {
				st.Acks++
				op := strings.TrimSuffix(strings.TrimPrefix(e.Payload, "ACK "), "\\n")
				for p, fs := range files {
					if fs.class != "" && !fs.osync && fs.lastWrite > fs.synced {
						out = append(out, Finding{"D1_dirty_at_ack", p, op, fmt.Sprintf("class %s written (line %d) and not fsynced when the operation was acknowledged (line %d)", fs.class, fs.lastWrite, e.Seq)})
						fs.synced = fs.lastWrite // report once
					}
				}
				for _, d := range needDir {
					out = append(out, Finding{"D2_dir_not_synced", d.path, op, fmt.Sprintf("class %s renamed into place (line %d) but %s was not fsynced before the acknowledgement (line %d)", d.class, d.seq, d.dir, e.Seq)})
				}
				needDir = nil
				tsmRenamedSinceAck = false
				curOp = "after " + op
				continue
			}
			st.Writes++
			fs := get(e.Path)
			if fs.class != "" {
				st.DurableWrites[fs.class]++
				fs.lastWrite = e.Seq
			}
		case "fsync", "fdatasync":
			st.Fsyncs++
			if fs := files[e.Path]; fs != nil {
				// covers the writes that had entered before this fsync was called
				if e.Seq > fs.synced {
					fs.synced = e.Seq
				}
			}
			// a directory fsync satisfies pending rename obligations in that directory
			keep := needDir[:0]
			for _, d := range needDir {
				if d.dir != e.Path {
					keep = append(keep, d)
				}
			}
			needDir = keep
		case "rename", "renameat", "renameat2":
			st.Renames++
			src, dst := e.Path, e.Path2
			cls := ru.Durable(dst)
			if fs := files[src]; fs != nil {
				if cls != "" && !fs.osync && fs.lastWrite > fs.synced {
					out = append(out, Finding{"D2_rename_before_sync", dst, curOp, fmt.Sprintf("class %s: source %s written (line %d) and not fsynced when renamed into place (line %d)", cls, filepath.Base(src), fs.lastWrite, e.Seq)})
				}
				fs.class = cls
				files[dst] = fs
				delete(files, src)
			}
			if cls != "" && ru.RenameNeedsDirSync[cls] {
				needDir = append(needDir, pendingDir{filepath.Dir(dst), dst, cls, e.Seq})
			}
			if cls == "tsm" {
				tsmRenamedSinceAck = true
			}
		case "unlink", "unlinkat":
			st.Unlinks++
			if strings.HasSuffix(e.Path, ".wal") && !tsmRenamedSinceAck && curOp != "startup" {
				out = append(out, Finding{"D3_wal_removed_before_snapshot_live", e.Path, curOp, fmt.Sprintf("WAL segment unlinked (line %d) although no TSM file was renamed into place since the last acknowledgement", e.Seq)})
			}
			delete(files, e.Path)
		}
	}
	return out, st
}

// MarkOSync records the O_SYNC/O_DSYNC files of a trace: call before Check when the classes
// need it. (openat results are decorated "= 7</abs/path>"; flags are in the call.)
func OSyncPaths(evs []Event, logPath string) map[string]bool {
	out := map[string]bool{}
	f, err := os.Open(logPath)
	if err != nil {
		return out
	}
	defer f.Close()
	sc := bufio.NewScanner(f)
	sc.Buffer(make([]byte, 1<<20), 1<<22)
	re := regexp.MustCompile(`openat\(.*(O_SYNC|O_DSYNC).*=\s+\d+<([^>]*)>`)
	// with -f a call can be split: "pid openat(… O_SYNC … <unfinished ...>" and later
	// "pid <... openat resumed>…) = 7</abs/path>"
	reUnf := regexp.MustCompile(`^\s*(\d+)\s.*openat\(.*(O_SYNC|O_DSYNC).*<unfinished \.\.\.>`)
	reRes := regexp.MustCompile(`^\s*(\d+)\s.*<\.\.\. openat resumed>.*=\s+\d+<([^>]*)>`)
	pending := map[string]bool{}
	for sc.Scan() {
		line := sc.Text()
		if m := re.FindStringSubmatch(line); m != nil {
			out[m[2]] = true
			continue
		}
		if m := reUnf.FindStringSubmatch(line); m != nil {
			pending[m[1]] = true
			continue
		}
		if m := reRes.FindStringSubmatch(line); m != nil {
			if pending[m[1]] || strings.Contains(line, "O_SYNC") || strings.Contains(line, "O_DSYNC") {
				out[m[2]] = true
			}
		}
		if strings.Contains(line, "openat resumed>") {
			if f := strings.Fields(line); len(f) > 0 {
				delete(pending, f[0])
			}
		}
	}
	return out
}
