package strace

import (
	"os"
	"path/filepath"
	"testing"
)

func TestOSyncPathsSplitCall(t *testing.T) {
	log := filepath.Join(t.TempDir(), "s.log")
	os.WriteFile(log, []byte(`101 openat(AT_FDCWD</w>, "/d/a.idxl", O_WRONLY|O_CREAT|O_APPEND|O_SYNC|O_CLOEXEC, 0666) = 7</d/a.idxl>
102 openat(AT_FDCWD</w>, "/d/b.idxl", O_WRONLY|O_CREAT|O_APPEND|O_SYNC|O_CLOEXEC, 0666 <unfinished ...>
103 openat(AT_FDCWD</w>, "/d/plain", O_WRONLY|O_CREAT, 0666 <unfinished ...>
102 <... openat resumed>) = 8</d/b.idxl>
103 <... openat resumed>) = 9</d/plain>
104 openat(AT_FDCWD</w>,  <unfinished ...>
104 <... openat resumed>"/d/c.idxl", O_WRONLY|O_DSYNC, 0666) = 10</d/c.idxl>
`), 0o644)
	got := OSyncPaths(nil, log)
	for _, p := range []string{"/d/a.idxl", "/d/b.idxl", "/d/c.idxl"} {
		if !got[p] {
			t.Errorf("%s not recognised as O_SYNC", p)
		}
	}
	if got["/d/plain"] {
		t.Errorf("/d/plain wrongly recognised as O_SYNC")
	}
}
