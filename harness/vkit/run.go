package vkit

import (
	"bufio"
	"crypto/sha256"
	"encoding/hex"
	"encoding/json"
	"fmt"
	"os"
	"path/filepath"
	"regexp"
	"runtime/debug"
	"sort"
	"strconv"
	"strings"
	"sync"
	"testing"
	"time"
)

// Run is the per-check context: tier/seed, case accounting, violation reporting against the
// known-findings file, and the evidence writer (DESIGN §3 "Evidence", "Known findings").
type Run struct {
	T     testing.TB
	Prop  string
	Level string
	Tier  string
	Seed  int64

	root      string
	mu        sync.Mutex
	start     time.Time
	evals     int
	distinct  map[[16]byte]struct{}
	samples   []any
	maxSample int
	events    map[string]int64
	extra     map[string]any
	rule      string
	assume    []string
	trusted   []string
	viol      int
	knownHit  map[string]int
	inconc    map[string]int
	findings  []Finding
	replayN   int
	exhaust   *bool
	finished  bool
}

type Finding struct {
	Status   string            `json:"status"`
	Property string            `json:"property"`
	Key      string            `json:"key"`
	Match    map[string]string `json:"match"`
	What     string            `json:"what"`
	Commit   string            `json:"commit,omitempty"`
}

func Root() string {
	if r := os.Getenv("VERIF_ROOT"); r != "" {
		return r
	}
	return "/verif"
}

func envInt(k string, def int64) int64 {
	if v := os.Getenv(k); v != "" {
		if n, err := strconv.ParseInt(v, 10, 64); err == nil {
			return n
		}
	}
	return def
}

// Start begins a check run. Tier and seed come from VERIF_TIER / VERIF_SEED.
func Start(t testing.TB, prop, level string) *Run {
	tier := os.Getenv("VERIF_TIER")
	if tier != "thorough" {
		tier = "quick"
	}
	r := &Run{T: t, Prop: prop, Level: level, Tier: tier, Seed: envInt("VERIF_SEED", 1),
		root: Root(), start: time.Now(), distinct: map[[16]byte]struct{}{}, maxSample: 6,
		events: map[string]int64{}, extra: map[string]any{}, knownHit: map[string]int{}, inconc: map[string]int{}}
	r.assume = []string{}
	r.samples = []any{}
	r.trusted = []string{"stub libflux (/verif/libflux-stub)", "go toolchain 1.26.3", "harness oracle code in /verif/harness"}
	r.loadFindings()
	return r
}

func (r *Run) loadFindings() {
	f, err := os.Open(filepath.Join(r.root, "KNOWN_FINDINGS.jsonl"))
	if err != nil {
		return
	}
	defer f.Close()
	sc := bufio.NewScanner(f)
	sc.Buffer(make([]byte, 1<<20), 1<<20)
	for sc.Scan() {
		line := strings.TrimSpace(sc.Text())
		if line == "" || strings.HasPrefix(line, "#") {
			continue
		}
		var fd Finding
		if err := json.Unmarshal([]byte(line), &fd); err != nil {
			r.T.Fatalf("KNOWN_FINDINGS.jsonl: %v in %q", err, line)
		}
		if fd.Property == r.Prop {
			r.findings = append(r.findings, fd)
		}
	}
}

func (r *Run) Quick() bool { return r.Tier == "quick" }

// N picks the case budget of the tier (a number of cases, never seconds).
func (r *Run) N(quick, thorough int) int {
	if r.Quick() {
		return quick
	}
	return thorough
}

func (r *Run) Rand(caseNo int) *Rand { return CaseRand(r.Seed, r.Prop, caseNo) }

// SubRand derives a generator for a named sub-stream of the check.
func (r *Run) SubRand(stream string, caseNo int) *Rand {
	return CaseRand(r.Seed, r.Prop+"/"+stream, caseNo)
}

func (r *Run) Rule(s string)         { r.mu.Lock(); r.rule = s; r.mu.Unlock() }
func (r *Run) Assume(s ...string)    { r.mu.Lock(); r.assume = append(r.assume, s...); r.mu.Unlock() }
func (r *Run) Trust(s ...string)     { r.mu.Lock(); r.trusted = append(r.trusted, s...); r.mu.Unlock() }
func (r *Run) Exhaustive(b bool)     { r.mu.Lock(); r.exhaust = &b; r.mu.Unlock() }
func (r *Run) Extra(k string, v any) { r.mu.Lock(); r.extra[k] = v; r.mu.Unlock() }
func (r *Run) Event(name string, n int64) {
	r.mu.Lock()
	r.events[name] += n
	r.mu.Unlock()
}
func (r *Run) EventCount(name string) int64 {
	r.mu.Lock()
	defer r.mu.Unlock()
	return r.events[name]
}

// Case records one evaluated case. key is a canonical form of the case; nontrivial says
// whether the case satisfies the check's stated non-triviality rule.
func (r *Run) Case(key string, nontrivial bool) {
	h := sha256.Sum256([]byte(key))
	var k [16]byte
	copy(k[:], h[:16])
	r.mu.Lock()
	r.evals++
	if nontrivial {
		r.distinct[k] = struct{}{}
	}
	r.mu.Unlock()
}

// Sample keeps up to a handful of real cases for the evidence file.
func (r *Run) Sample(v any) {
	r.mu.Lock()
	if len(r.samples) < r.maxSample {
		r.samples = append(r.samples, v)
	}
	r.mu.Unlock()
}
func (r *Run) WantSample() bool {
	r.mu.Lock()
	defer r.mu.Unlock()
	return len(r.samples) < r.maxSample
}

// Inconclusive records a case the oracle could not decide (timeout, watchdog, unreachable hook).
func (r *Run) Inconclusive(reason string) {
	r.mu.Lock()
	r.inconc[reason]++
	r.mu.Unlock()
}

func matchFeature(pat, val string) bool {
	if pat == val {
		return true
	}
	re, err := regexp.Compile("^(?:" + pat + ")$")
	if err != nil {
		return false
	}
	return re.MatchString(val)
}

// Violation reports an oracle witness. class + features identify the failing call site /
// trigger; a KNOWN_FINDINGS entry with status "known" whose match is a conjunction over them
// downgrades the report to a KNOWN-FINDING line. "fixed" entries suppress nothing.
func (r *Run) Violation(class string, features map[string]string, witness any) {
	r.mu.Lock()
	defer r.mu.Unlock()
	feats := map[string]string{"class": class}
	for k, v := range features {
		feats[k] = v
	}
	for _, fd := range r.findings {
		if fd.Status != "known" {
			continue
		}
		ok := len(fd.Match) > 0
		for k, pat := range fd.Match {
			v, has := feats[k]
			if !has || !matchFeature(pat, v) {
				ok = false
				break
			}
		}
		if ok {
			if r.knownHit[fd.Key] == 0 {
				fmt.Printf("KNOWN-FINDING: property=%s %s [%s]\n", r.Prop, fd.What, fd.Key)
			}
			r.knownHit[fd.Key]++
			return
		}
	}
	r.viol++
	if r.viol > 20 {
		return // enough witnesses; keep counting
	}
	r.replayN++
	dir := filepath.Join(r.root, "replays")
	os.MkdirAll(dir, 0o755)
	p := filepath.Join(dir, fmt.Sprintf("%s-%d-%d.json", r.Prop, r.Seed, r.replayN))
	rec := map[string]any{"property": r.Prop, "tier": r.Tier, "seed": r.Seed, "class": class, "features": features, "witness": witness}
	b, err := json.MarshalIndent(rec, "", " ")
	if err != nil {
		b = []byte(fmt.Sprintf("{\"property\":%q,\"class\":%q,\"witness\":%q}", r.Prop, class, fmt.Sprint(witness)))
	}
	os.WriteFile(p, b, 0o644)
	fmt.Printf("VIOLATION property=%s replay=%s\n", r.Prop, p)
	ws := string(b)
	if len(ws) > 3000 {
		ws = ws[:3000] + "…"
	}
	fmt.Printf("  class=%s features=%v\n  %s\n", class, features, ws)
}

func (r *Run) Violations() int { r.mu.Lock(); defer r.mu.Unlock(); return r.viol }

// Finish writes the evidence file and fails the test on violations. A run whose monitors
// observed nothing exits through t.Fatalf with INCONCLUSIVE (driver maps it to exit 2).
func (r *Run) Finish() {
	// `defer r.Finish()` makes this the deferred function, so a panic of the subject on the
	// test goroutine is recovered here and reported as a witness instead of being masked.
	if p := recover(); p != nil {
		st := string(debug.Stack())
		if len(st) > 6000 {
			st = st[:6000]
		}
		site := "?"
		for _, ln := range strings.Split(st, "\n") {
			if strings.HasPrefix(ln, "github.com/influxdata/influxdb/v2/") {
				site = strings.TrimPrefix(ln, "github.com/influxdata/influxdb/v2/")
				if i := strings.LastIndexByte(site, '('); i > 0 {
					site = site[:i]
				}
				break
			}
		}
		r.Violation("panic", map[string]string{"site": site}, map[string]any{"panic": fmt.Sprint(p), "stack": st})
	}
	r.mu.Lock()
	if r.finished {
		r.mu.Unlock()
		return
	}
	r.finished = true
	cov := map[string]any{
		"evaluations":         r.evals,
		"distinct_nontrivial": len(r.distinct),
		"rule":                r.rule,
		"samples":             r.samples,
		"trusted_base":        r.trusted,
	}
	if len(r.events) > 0 {
		cov["monitor_events"] = r.events
	}
	if len(r.inconc) > 0 {
		cov["inconclusive"] = r.inconc
	}
	if len(r.knownHit) > 0 {
		cov["known_findings_hit"] = r.knownHit
	}
	if r.exhaust != nil {
		cov["exhaustive"] = *r.exhaust
	}
	keys := make([]string, 0, len(r.extra))
	for k := range r.extra {
		keys = append(keys, k)
	}
	sort.Strings(keys)
	for _, k := range keys {
		cov[k] = r.extra[k]
	}
	if cov["samples"] == nil {
		cov["samples"] = []any{}
	}
	ev := map[string]any{
		"property_id": r.Prop, "tier": r.Tier, "seed": r.Seed, "level": r.Level,
		"coverage": cov, "assumptions": r.assume, "wall_s": time.Since(r.start).Seconds(),
		"violations": r.viol,
	}
	if ev["assumptions"] == nil {
		ev["assumptions"] = []string{}
	}
	viol, evals, nd, ns := r.viol, r.evals, len(r.distinct), len(r.samples)
	r.mu.Unlock()
	dir := os.Getenv("VERIF_EVIDENCE_DIR")
	if dir == "" {
		dir = filepath.Join(r.root, "evidence")
	}
	os.MkdirAll(dir, 0o755)
	b, err := json.MarshalIndent(ev, "", " ")
	if err != nil {
		r.T.Fatalf("evidence marshal: %v", err)
	}
	if err := os.WriteFile(filepath.Join(dir, r.Prop+".json"), b, 0o644); err != nil {
		r.T.Fatalf("evidence write: %v", err)
	}
	fmt.Printf("%s tier=%s seed=%d evaluations=%d distinct_nontrivial=%d violations=%d wall=%.1fs\n",
		r.Prop, r.Tier, r.Seed, evals, nd, viol, time.Since(r.start).Seconds())
	if viol > 0 {
		r.T.Fatalf("%d violation(s) of %s", viol, r.Prop)
	}
	if evals == 0 || nd < 2 || ns == 0 {
		fmt.Printf("INCONCLUSIVE property=%s monitors observed too little (evaluations=%d distinct=%d)\n", r.Prop, evals, nd)
		r.T.Fatalf("INCONCLUSIVE")
	}
}

// Hex shortens a byte string for witnesses.
func Hex(b []byte) string {
	if len(b) > 64 {
		return hex.EncodeToString(b[:64]) + fmt.Sprintf("…(%d bytes)", len(b))
	}
	return hex.EncodeToString(b)
}
