package zz_gixprobe

import (
	"fmt"
	"os"
	"testing"
)

func list(x *gixIndex, name, key string) (keys, vals []string, hasKey, hasVal bool) {
	is := x.Set()
	if it, _ := is.TagKeyIterator([]byte(name)); it != nil {
		for {
			b, _ := it.Next()
			if b == nil {
				break
			}
			keys = append(keys, string(b))
		}
		it.Close()
	}
	if it, _ := is.TagValueIterator([]byte(name), []byte(key)); it != nil {
		for {
			b, _ := it.Next()
			if b == nil {
				break
			}
			vals = append(vals, string(b))
		}
		it.Close()
	}
	hasKey, _ = x.Idx.HasTagKey([]byte(name), []byte(key))
	hasVal, _ = x.Idx.HasTagValue([]byte(name), []byte(key), []byte("b"))
	return
}

func names(x *gixIndex) (out []string) {
	it, _ := x.Set().MeasurementIterator()
	if it == nil {
		return
	}
	for {
		b, _ := it.Next()
		if b == nil {
			break
		}
		out = append(out, string(b))
	}
	it.Close()
	return
}

func TestProbe(t *testing.T) {
	dir, _ := gixTempDir("probe")
	defer os.RemoveAll(dir)
	// (1) stale value and key inside a live measurement
	x, err := gixOpen(dir+"/a", 1<<20, 0, 1)
	if err != nil {
		t.Fatal(err)
	}
	A := gixSeries{"m", map[string]string{"k0": "a"}}
	B := gixSeries{"m", map[string]string{"k0": "b", "k1": "z"}}
	x.Create([]gixSeries{A, B})
	x.DropSeries([]gixSeries{B}, false)
	k, v, hk, hv := list(x, "m", "k0")
	fmt.Println("(1) live series: m,k0=a | keys", k, "| values of k0", v, "| HasTagValue(m,k0,b)", hv, hk)
	hk1, _ := x.Idx.HasTagKey([]byte("m"), []byte("k1"))
	fmt.Println("    HasTagKey(m,k1)", hk1)
	x.CompactWait()
	x.Reopen()
	k, v, _, hv = list(x, "m", "k0")
	fmt.Println("    after compact+reopen: keys", k, "values", v, "HasTagValue(m,k0,b)", hv)
	x.Close()
	// (2) dropped measurement whose series lives in an older file
	x, _ = gixOpen(dir+"/b", 1, 0, 1)
	x.Create([]gixSeries{A})
	x.CompactWait()
	fmt.Println("(2) layout before drop", x.Layout())
	x.DropSeries([]gixSeries{A}, false)
	k, v, hk, _ = list(x, "m", "k0")
	ex, _ := x.Idx.MeasurementExists([]byte("m"))
	fmt.Println("    after dropping the only series: measurements", names(x), "MeasurementExists", ex, "| TagKeyIterator(m)", k, "TagValueIterator(m,k0)", v, "HasTagKey(m,k0)", hk)
	x.Close()
	// (3) series kept in the series file (held by another shard): series sets
	x, _ = gixOpen(dir+"/c", 1, 100, 1)
	x.Create([]gixSeries{A, B})
	x.CompactWait()
	ids := func(name, key, val string) (m, kk, vv []string) {
		is := x.Set()
		it, _ := is.MeasurementSeriesIDIterator([]byte(name))
		a, _, _ := gixReadIDs(it)
		for _, id := range a {
			m = append(m, gixKeyOfID(x.SFile, id))
		}
		it, _ = is.TagKeySeriesIDIterator([]byte(name), []byte(key))
		a, _, _ = gixReadIDs(it)
		for _, id := range a {
			kk = append(kk, gixKeyOfID(x.SFile, id))
		}
		it, _ = is.TagValueSeriesIDIterator([]byte(name), []byte(key), []byte(val))
		a, _, _ = gixReadIDs(it)
		for _, id := range a {
			vv = append(vv, gixKeyOfID(x.SFile, id))
		}
		return
	}
	ids("m", "k0", "b") // warm the cache
	x.DropSeriesOpt([]gixSeries{B}, false, true)
	m, kk, vv := ids("m", "k0", "b")
	fmt.Println("(3) B dropped from the index only: MeasurementSeriesIDIterator(m)", m, "| TagKeySeriesIDIterator(m,k0)", kk, "| TagValueSeriesIDIterator(m,k0,b)", vv)
	x.Close()
}
