package zz_gixprobe

import (
	"fmt"
	"os"
	"sort"
	"strconv"
	"strings"
	"sync"

	"verifharness/vkit"
)

// gixReporter caps the witnesses written per violation class (class + features) so that one
// noisy class cannot use up the run's witness slots; every occurrence is still counted as a
// monitor event "violation:<class>{features}".
type gixReporter struct {
	r    *vkit.Run
	mu   sync.Mutex
	seen map[string]int
	per  int
}

func newGixReporter(r *vkit.Run, perClass int) *gixReporter {
	return &gixReporter{r: r, seen: map[string]int{}, per: perClass}
}

func gixFeatKey(class string, f map[string]string) string {
	ks := make([]string, 0, len(f))
	for k := range f {
		ks = append(ks, k)
	}
	sort.Strings(ks)
	var b strings.Builder
	b.WriteString(class)
	b.WriteString("{")
	for i, k := range ks {
		if i > 0 {
			b.WriteString(",")
		}
		fmt.Fprintf(&b, "%s=%s", k, f[k])
	}
	b.WriteString("}")
	return b.String()
}

func (g *gixReporter) Violation(class string, features map[string]string, witness any) {
	k := gixFeatKey(class, features)
	g.mu.Lock()
	g.seen[k]++
	n := g.seen[k]
	g.mu.Unlock()
	g.r.Event("violation:"+k, 1)
	if only := os.Getenv("GIX_ONLY"); only != "" && !strings.Contains(k, only) {
		return // debugging aid: look at one class at a time
	}
	if n <= g.per {
		g.r.Violation(class, features, witness)
	}
}

func (g *gixReporter) Count() int {
	g.mu.Lock()
	defer g.mu.Unlock()
	n := 0
	for _, v := range g.seen {
		n += v
	}
	return n
}

// gixN is r.N with a debugging override (GIX_CASES=<n>) used only while tuning budgets.
func gixN(r *vkit.Run, quick, thorough int) int {
	if v, err := strconv.Atoi(os.Getenv("GIX_CASES")); err == nil && v > 0 {
		return v
	}
	return r.N(quick, thorough)
}

// gixTempDir creates a scratch directory, on tmpfs when the machine has one: the crash model of
// these checks is process death (page cache survives), so fsync durability is not observed and
// need not be paid for (4 ms per fsync on the sandbox's ext4 against 3 µs on tmpfs).
func gixTempDir(prefix string) (string, error) {
	if fi, err := os.Stat("/dev/shm"); err == nil && fi.IsDir() {
		if d, err := os.MkdirTemp("/dev/shm", prefix); err == nil {
			return d, nil
		}
	}
	return os.MkdirTemp("", prefix)
}
