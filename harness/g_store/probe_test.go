package g_store

import (
	"fmt"
	"testing"

	"github.com/influxdata/influxdb/v2/models"
	"verifharness/vkit/sk"
)

func TestProbeResurface(t *testing.T) {
	for _, mx := range []int64{1<<63 - 1, 1<<63 - 2, c17Base + 2*c17Hour, models.MaxNanoTime} {
		env, err := c17Open(t.TempDir())
		if err != nil {
			t.Fatal(err)
		}
		tags := map[string]string{"t0": "a"}
		tm := c17Base + c17Hour - 1
		env.Write([]models.Point{sk.Point("m,2", tags, map[string]sk.Val{"f": sk.IntVal(37)}, tm), sk.Point("m,2", tags, map[string]sk.Val{"f": sk.IntVal(1)}, c17Base)})
		for _, g := range env.Groups() {
			env.Snapshot(g.ShardID)
		}
		env.Write([]models.Point{sk.Point("m,2", tags, map[string]sk.Val{"f": sk.IntVal(150)}, tm)})
		pa, _, _ := c17Del{Mode: "proto", Expr: c17Cmp("t0", "=", "a")}.Build()
		fmt.Println("delete err", env.Delete(c17Base+1, mx, pa, nil))
		rows, _ := env.ReadFilter(-1<<63, 1<<63-1, nil)
		for _, r := range rows {
			fmt.Println("max", mx, "   row", r.Series, r.Field, sk.FmtPts(r.Pts))
		}
		env.Close()
	}
}
