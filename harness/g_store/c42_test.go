package g_store

// C42 — metadata queries list exactly the live names, sorted and authorized (DESIGN §5 C42).
// Subject: tsdb.Store MeasurementNames / TagKeys / TagValues (the calls behind SHOW MEASUREMENTS /
// TAG KEYS / TAG VALUES and the v1 storage metadata service) on a real storage.Engine with three
// shard groups. Oracle: live-series model + the kit's condition evaluator + a deterministic
// fine-grained authorizer.

import (
	"context"
	"fmt"
	"hash/fnv"
	"os"
	"sort"
	"strings"
	"testing"

	"github.com/influxdata/influxdb/v2/influxql/query"
	"github.com/influxdata/influxdb/v2/models"
	"github.com/influxdata/influxql"

	"verifharness/vkit"
	"verifharness/vkit/sk"
)

// c42Auth hides series by a deterministic hash of (database, measurement, tags).
type c42Auth struct {
	Salt     uint64
	Num, Den uint64
	calls    *int64
}

func (a c42Auth) visible(db string, name []byte, tags models.Tags) bool {
	h := fnv.New64a()
	fmt.Fprintf(h, "%d\x00%s\x00%s", a.Salt, db, name)
	t := tags.Clone()
	sort.Sort(t)
	for _, kv := range t {
		fmt.Fprintf(h, "\x00%s\x01%s", kv.Key, kv.Value)
	}
	return h.Sum64()%a.Den < a.Num
}
func (a c42Auth) AuthorizeDatabase(influxql.Privilege, string) bool { return true }
func (a c42Auth) AuthorizeQuery(string, *influxql.Query) error      { return nil }
func (a c42Auth) AuthorizeSeriesRead(db string, name []byte, tags models.Tags) bool {
	*a.calls++
	return a.visible(db, name, tags)
}
func (a c42Auth) AuthorizeSeriesWrite(string, []byte, models.Tags) bool { return true }

type c42World struct {
	env *c17Env
	w   *c17World
	m   *sk.Model
	log []string
}

// c42Delete draws a delete that empties whole series in whole shard groups (or everywhere): the
// subject here is the listing of what remains, not the delete paths C17 probes.
func c42Delete(rg *vkit.Rand, w *c17World) c17Del {
	d := c17Del{Min: -1 << 63, Max: 1<<63 - 1, Mode: "proto"}
	if rg.Chance(2, 3) {
		g := rg.Intn(w.NGroups)
		d.Min, d.Max = c17Base+int64(g)*c17Hour, c17Base+int64(g+1)*c17Hour-1
	}
	switch rg.Intn(4) {
	case 0:
		d.Expr = c17Cmp("_measurement", "=", vkit.Pick(rg, w.Meas))
	case 1:
		k := vkit.Pick(rg, w.Keys)
		d.Expr = c17Cmp(k, "=", vkit.Pick(rg, w.Vals[k]))
	default:
		s := vkit.Pick(rg, w.Series)
		d.Expr = &c17Expr{Op: "and", Kids: []*c17Expr{c17Cmp("_measurement", "=", s.Meas), c17Cmp("t0", "=", s.Tags["t0"])}}
	}
	d.Shape = c17Shape(d.Expr)
	return d
}

func (x *c42World) delete(r *vkit.Run, rg *vkit.Rand) bool {
	d := c42Delete(rg, x.w)
	pred, me, err := d.Build()
	if err != nil {
		return true
	}
	d.Apply(x.w, x.m)
	if err := x.env.Delete(d.Min, d.Max, pred, me); err != nil {
		r.Inconclusive("setup_delete_failed")
		return false
	}
	x.log = append(x.log, d.String())
	r.Event("setup_deletes", 1)
	return true
}

// storedIsModel checks through the shards' own cursors that the engine holds what the model says.
func (x *c42World) storedIsModel(r *vkit.Run) bool {
	cc := &c17Ctx{r: r, env: x.env, w: x.w, m: x.m}
	for _, skey := range x.m.SeriesKeys() {
		for _, f := range x.m.Fields(skey) {
			got := cc.directRead(x.w.ByKey[skey], f, x.env.Groups())
			sort.Slice(got, func(i, j int) bool { return got[i].T < got[j].T })
			if sk.Diff(x.m.Read(skey, f, sk.MinT, sk.MaxT, true), got) != "" {
				return false
			}
		}
	}
	return true
}

func c42Build(r *vkit.Run, t *testing.T, wi int) (*c42World, *vkit.Rand) {
	rg := r.SubRand("world", wi)
	var ctr int64
	var w *c17World
	for {
		w = c17NewWorld(rg, 3, 10, &ctr)
		ok := true
		for _, vs := range w.Vals { // keep C17's sibling-sort delete defect out of the setup
			has := map[string]bool{}
			for _, v := range vs {
				has[v] = true
			}
			if has["a"] && has["a!"] {
				ok = false
			}
		}
		if ok {
			break
		}
	}
	env, err := c17Open(t.TempDir())
	if err != nil {
		r.Inconclusive("engine_open_failed")
		return nil, nil
	}
	x := &c42World{env: env, w: w, m: sk.NewModel()}
	steps := rg.Range(6, 10)
	for s := 0; s < steps; s++ {
		switch k := rg.Intn(10); {
		case s < 3 || k < 5:
			pts, _ := w.Batch(rg, rg.Range(8, 24), x.m)
			if err := env.Write(pts); err != nil {
				r.Inconclusive("setup_write_failed")
				env.Close()
				return nil, nil
			}
			x.log = append(x.log, fmt.Sprintf("write %d points", len(pts)))
		case k < 7:
			for _, g := range env.Groups() {
				if rg.Chance(2, 3) && env.Snapshot(g.ShardID) == nil {
					x.log = append(x.log, fmt.Sprintf("snapshot shard %d", g.ShardID))
				}
			}
		default:
			if !x.delete(r, rg) {
				env.Close()
				return nil, nil
			}
		}
	}
	return x, rg
}

type c42Query struct {
	API      string // "MeasurementNames" | "TagKeys" | "TagValues"
	Scope    []int  // shard group indexes (TagKeys / TagValues)
	Auth     *c42Auth
	MeasCond *c17Expr   // MeasurementNames: condition over _measurement and tags
	Names    []*c17Expr // TagKeys/TagValues: comparisons of _measurement (FROM clause), ANDed
	KeyCl    *c17Expr   // comparisons of _tagKey (WITH KEY clause)
	Filter   *c17Expr   // tag expression (WHERE clause)
}

func (q c42Query) cond() *c17Expr {
	if q.API == "MeasurementNames" {
		return q.MeasCond
	}
	var parts []*c17Expr
	parts = append(parts, q.Names...)
	for _, p := range []*c17Expr{q.KeyCl, q.Filter} {
		if p == nil {
			continue
		}
		if p.Op == "and" || p.Op == "or" {
			p = &c17Expr{Op: "paren", Kids: []*c17Expr{p}}
		}
		parts = append(parts, p)
	}
	switch len(parts) {
	case 0:
		return nil
	case 1:
		return parts[0]
	}
	return &c17Expr{Op: "and", Kids: parts}
}

func (q c42Query) String() string {
	a := "open"
	if q.Auth != nil {
		a = fmt.Sprintf("hash(salt %d) %% %d < %d", q.Auth.Salt, q.Auth.Den, q.Auth.Num)
	}
	return fmt.Sprintf("%s shards=%v auth=%s cond=%s", q.API, q.Scope, a, q.cond().String())
}

func c42GenQuery(rg *vkit.Rand, w *c17World, calls *int64) c42Query {
	q := c42Query{API: []string{"MeasurementNames", "TagKeys", "TagKeys", "TagValues", "TagValues"}[rg.Intn(5)]}
	switch rg.Intn(5) {
	case 0: // open authorizer
	case 1:
		q.Auth = &c42Auth{Salt: rg.Uint64() % 1000, Num: 1, Den: 1, calls: calls} // restricted type, allows everything
	default:
		q.Auth = &c42Auth{Salt: rg.Uint64() % 1000, Num: uint64(rg.Range(1, 3)), Den: 4, calls: calls}
	}
	tagLit := func(k string) string {
		switch rg.Intn(10) {
		case 0:
			return "zz"
		case 1:
			return vkit.Pick(rg, c17ValPool)
		}
		return vkit.Pick(rg, w.Vals[k])
	}
	measLit := func() string {
		if rg.Chance(1, 8) {
			return "nosuch"
		}
		return vkit.Pick(rg, w.Meas)
	}
	nameCmp := func() *c17Expr {
		op := vkit.Pick(rg, []string{"=", "=", "!=", "=~", "!~"})
		if op == "=~" || op == "!~" {
			return c17Cmp("_measurement", op, vkit.Pick(rg, []string{"^m0", "^m", "a$", ".*", "^é$", ",|=", "^$"}))
		}
		return c17Cmp("_measurement", op, measLit())
	}
	if q.API == "MeasurementNames" {
		if rg.Chance(1, 5) {
			return q
		}
		if rg.Chance(1, 4) {
			// one tag comparison that several values of the key can satisfy, under a restricted
			// authorizer: the per-measurement walk over tag values must not stop at a value whose
			// series are all hidden or deleted
			if q.Auth == nil {
				q.Auth = &c42Auth{Salt: rg.Uint64() % 1000, Num: uint64(rg.Range(1, 3)), Den: 4, calls: calls}
			}
			k := vkit.Pick(rg, w.Keys)
			if rg.Chance(1, 4) {
				q.MeasCond = c17Cmp(k, "!=", tagLit(k))
			} else {
				q.MeasCond = c17Cmp(k, vkit.Pick(rg, []string{"=~", "=~", "!~"}), vkit.Pick(rg, c17Regexes))
			}
			return q
		}
		var gen func(d int) *c17Expr
		gen = func(d int) *c17Expr {
			if d == 0 || rg.Chance(1, 2) {
				if rg.Chance(1, 3) {
					return nameCmp()
				}
				k := vkit.Pick(rg, w.Keys)
				op := vkit.Pick(rg, []string{"=", "=", "=", "=~", "!=", "!~"})
				if op == "=~" || op == "!~" {
					return c17Cmp(k, op, vkit.Pick(rg, c17Regexes))
				}
				return c17Cmp(k, op, tagLit(k))
			}
			op := "and"
			if rg.Bool() {
				op = "or"
			}
			e := &c17Expr{Op: op}
			for i := 0; i < 2; i++ {
				k := gen(d - 1)
				if k.Op == "and" || k.Op == "or" {
					k = &c17Expr{Op: "paren", Kids: []*c17Expr{k}}
				}
				e.Kids = append(e.Kids, k)
			}
			return e
		}
		q.MeasCond = gen(2)
		return q
	}
	// shard subset
	p := rg.Perm(w.NGroups)
	n := rg.Range(1, w.NGroups)
	if rg.Chance(1, 3) {
		n = w.NGroups
	}
	q.Scope = append([]int{}, p[:n]...)
	sort.Ints(q.Scope)
	for i := 0; i < rg.Intn(3); i++ {
		q.Names = append(q.Names, nameCmp())
	}
	keyCl := func() *c17Expr {
		keys := append([]string{"zz"}, w.Keys...)
		switch rg.Intn(5) {
		case 0:
			return c17Cmp("_tagKey", "!=", vkit.Pick(rg, keys))
		case 1:
			return c17Cmp("_tagKey", vkit.Pick(rg, []string{"=~", "!~"}), vkit.Pick(rg, []string{"^t", "0$", " |,", ".*", "^t1$"}))
		case 2: // WITH KEY IN (...)
			e := &c17Expr{Op: "or"}
			for _, i := range rg.Perm(len(keys))[:2] {
				e.Kids = append(e.Kids, c17Cmp("_tagKey", "=", keys[i]))
			}
			return e
		default:
			return c17Cmp("_tagKey", "=", vkit.Pick(rg, keys))
		}
	}
	if q.API == "TagValues" || rg.Chance(1, 3) {
		q.KeyCl = keyCl()
	}
	if rg.Chance(1, 2) {
		q.Filter = c17GenExpr(rg, rg.Intn(3), append([]string{"zz"}, w.Keys...), func(k string) string {
			if k == "zz" {
				return vkit.Pick(rg, []string{"a", ""})
			}
			if rg.Chance(1, 10) {
				return ""
			}
			return tagLit(k)
		}, []string{"=", "=", "!=", "=~", "!~"})
	}
	return q
}

type c42Wit struct {
	World  int      `json:"world"`
	Setup  []string `json:"setup"`
	Query  string   `json:"query"`
	What   string   `json:"what"`
	Got    any      `json:"got"`
	Want   any      `json:"want,omitempty"`
	Detail any      `json:"detail,omitempty"`
}

// measBounds returns, for a MeasurementNames condition, the names that must be listed under every
// reading of the condition and the names that may be listed under some reading.
//
// Positive leaves (tag = 'non-empty', tag =~ /re not matching ""/, any comparison of the name) have
// one reading: some live visible series of the measurement satisfies them. Negated tag leaves and
// leaves matching the empty string are read per series by some code paths and per measurement by
// others, and AND may be read per series or per measurement: for those the oracle only bounds.
func measBounds(e *c17Expr, byMeas map[string][]c17Series) (must, may map[string]bool) {
	all := map[string]bool{}
	for m := range byMeas {
		all[m] = true
	}
	positive := true
	if e != nil {
		e.Walk(func(x *c17Expr) {
			if x.Op != "cmp" || x.Key == "_measurement" {
				return
			}
			switch x.Cmp {
			case "=":
				if x.Val == "" {
					positive = false
				}
			case "=~":
				if x.re.MatchString("") {
					positive = false
				}
			default:
				positive = false
			}
		})
	}
	must = map[string]bool{}
	if e == nil {
		return all, all
	}
	if positive {
		for m, ss := range byMeas {
			for _, s := range ss {
				if e.Eval(s.Meas, s.Tags, "") {
					must[m] = true
					break
				}
			}
		}
	}
	var up func(x *c17Expr) map[string]bool
	up = func(x *c17Expr) map[string]bool {
		switch x.Op {
		case "paren":
			return up(x.Kids[0])
		case "and", "or":
			acc := up(x.Kids[0])
			for _, k := range x.Kids[1:] {
				o := up(k)
				n := map[string]bool{}
				for m := range all {
					if (x.Op == "and" && acc[m] && o[m]) || (x.Op == "or" && (acc[m] || o[m])) {
						n[m] = true
					}
				}
				acc = n
			}
			return acc
		}
		leafPositive := x.Key == "_measurement" || (x.Cmp == "=" && x.Val != "") || (x.Cmp == "=~" && !x.re.MatchString(""))
		if !leafPositive {
			return all
		}
		out := map[string]bool{}
		for m, ss := range byMeas {
			for _, s := range ss {
				if x.Eval(s.Meas, s.Tags, "") {
					out[m] = true
					break
				}
			}
		}
		return out
	}
	return must, up(e)
}

func c42Run(r *vkit.Run, x *c42World, wi int, q c42Query, phase string, reported map[string]bool) {
	env, w := x.env, x.w
	groups := env.Groups()
	viol := func(class string, feats map[string]string, what string, got, want, detail any) {
		f := map[string]string{"api": q.API, "auth": "open", "phase": phase}
		if q.Auth != nil {
			f["auth"] = "restricted"
		}
		for k, v := range feats {
			f[k] = v
		}
		r.Event("violations_"+class+"_"+f["api"]+"_"+f["auth"]+"_"+f["cause"]+f["level"], 1)
		if oc := os.Getenv("C42_CLASS"); oc != "" && !strings.Contains(oc, class) { // debugging aid
			return
		}
		r.Violation(class, f, c42Wit{World: wi, Setup: x.log, Query: q.String(), What: what, Got: got, Want: want, Detail: detail})
	}
	// scope and the series classes
	scope := groups
	if q.API != "MeasurementNames" {
		scope = nil
		for _, gi := range q.Scope {
			for _, g := range groups {
				if (g.Start-c17Base)/c17Hour == int64(gi) {
					scope = append(scope, g)
				}
			}
		}
		if len(scope) == 0 {
			return // no shard was ever created for these groups
		}
	}
	live := c17Live(x.m, scope)
	vis := func(s c17Series) bool {
		return q.Auth == nil || q.Auth.visible(env.DB, []byte(s.Meas), models.NewTags(s.Tags))
	}
	liveVis := map[string][]c17Series{} // by measurement
	hiddenLive, dead := []c17Series{}, []c17Series{}
	for _, s := range w.Series {
		switch {
		case live[s.Key] && vis(s):
			liveVis[s.Meas] = append(liveVis[s.Meas], s)
		case live[s.Key]:
			hiddenLive = append(hiddenLive, s)
		default:
			if _, written := x.m.S[s.Key]; written {
				dead = append(dead, s)
			}
		}
	}
	var auth query.Authorizer
	if q.Auth != nil {
		auth = *q.Auth
	}
	var cond influxql.Expr
	if c := q.cond(); c != nil {
		cond = c.Influx()
	}
	ctx := context.Background()
	ids := env.ShardIDs(scope)
	// classify a name that must not be listed: whose series could have contributed it?
	blame := func(carries func(s c17Series) bool) (class, cause string) {
		// a deleted series the caller may see explains the name without any authorization leak;
		// only when no such series exists is a hidden live series the sole possible source
		for _, s := range dead {
			if carries(s) && vis(s) {
				return "deleted_series_name_returned", ""
			}
		}
		for _, s := range hiddenLive {
			if carries(s) {
				return "hidden_series_name_returned", "live_series_hidden_by_authorizer"
			}
		}
		for _, s := range dead {
			if carries(s) {
				return "hidden_series_name_returned", "deleted_series_hidden_by_authorizer"
			}
		}
		return "unexplained_name_returned", ""
	}
	deadCause := func(key, val string) string {
		if q.Auth == nil && q.Filter == nil && q.API != "MeasurementNames" {
			return "open_authorizer_lists_index_entry_without_series"
		}
		if key != "" {
			// the stale lookup may go through any tag the condition mentions: probe them all
			for _, k := range w.Keys {
				for _, v := range w.Vals[k] {
					ss, _ := env.SeriesKeys(auth, ids, c17Cmp(k, "=", v).Influx())
					for _, skey := range ss {
						if !live[skey] {
							return "dropped_series_still_reachable_by_tag_value"
						}
					}
				}
			}
		}
		return "unknown"
	}
	report := func(class, cause, what string, got, want any) {
		// established causes are reported once per world and cause
		if cause != "" && cause != "unknown" {
			k := class + cause + q.API
			if reported[k] {
				return
			}
			reported[k] = true
		}
		viol(class, map[string]string{"cause": cause}, what, got, want, nil)
	}

	switch q.API {
	case "MeasurementNames":
		names, err := env.TS.MeasurementNames(ctx, auth, env.DB, cond)
		if err != nil {
			viol("metadata_error", nil, err.Error(), nil, nil, nil)
			return
		}
		var got []string
		for _, n := range names {
			got = append(got, string(n))
		}
		r.Event("names_returned_MeasurementNames", int64(len(got)))
		if i := c17SortedUnique(got); i >= 0 {
			viol("not_sorted_or_duplicated", nil, fmt.Sprintf("position %d", i), got, nil, nil)
			return
		}
		must, may := measBounds(q.MeasCond, liveVis)
		if len(must) == len(may) {
			r.Event("measurement_conditions_with_one_reading", 1)
		} else {
			r.Event("measurement_conditions_bounded", 1)
		}
		gs := map[string]bool{}
		for _, n := range got {
			gs[n] = true
			if !may[n] {
				// whose series could have made the name match under some reading of the condition?
				// add the caller-visible deleted series, then the hidden ones, to the series sets
				withDead, withAll := map[string][]c17Series{}, map[string][]c17Series{}
				for m, ss := range liveVis {
					withDead[m] = append(withDead[m], ss...)
					withAll[m] = append(withAll[m], ss...)
				}
				for _, s := range dead {
					if vis(s) {
						withDead[s.Meas] = append(withDead[s.Meas], s)
					}
					withAll[s.Meas] = append(withAll[s.Meas], s)
				}
				for _, s := range hiddenLive {
					withAll[s.Meas] = append(withAll[s.Meas], s)
				}
				_, mayDead := measBounds(q.MeasCond, withDead)
				_, mayAll := measBounds(q.MeasCond, withAll)
				class, cause := "unexplained_name_returned", ""
				switch {
				case mayDead[n]:
					class, cause = "deleted_series_name_returned", "unknown"
					if q.Auth == nil {
						cause = "open_authorizer_lists_index_entry_without_series"
					}
				case mayAll[n]:
					class, cause = "hidden_series_name_returned", "series_hidden_by_authorizer"
				default:
					if _, ok := liveVis[n]; ok {
						class = "name_not_matching_condition_returned"
					}
				}
				report(class, cause, fmt.Sprintf("measurement %q is listed", n), got, c17SortedKeys(may))
				return
			}
		}
		for n := range must {
			if !gs[n] {
				viol("live_name_missing", nil, fmt.Sprintf("measurement %q has a visible live series satisfying the condition but is not listed", n), got, c17SortedKeys(must), nil)
				return
			}
		}
		r.Case(fmt.Sprint(wi, x.log, phase, q.String()), len(may) > 0 && (len(hiddenLive)+len(dead) > 0))
	default:
		nameOK := func(m string) bool {
			for _, n := range q.Names {
				if !n.Eval(m, nil, "") {
					return false
				}
			}
			return true
		}
		keyOK := func(k string) bool {
			return q.KeyCl == nil || q.KeyCl.Eval("", map[string]string{"_tagKey": k}, "")
		}
		want := map[string]bool{} // "meas\x00key" or "meas\x00key\x00value"
		for m, ss := range liveVis {
			if !nameOK(m) {
				continue
			}
			for _, s := range ss {
				if q.Filter != nil && !q.Filter.Eval(s.Meas, s.Tags, "") {
					continue
				}
				for k, v := range s.Tags {
					if !keyOK(k) {
						continue
					}
					if q.API == "TagKeys" {
						want[m+"\x00"+k] = true
					} else {
						want[m+"\x00"+k+"\x00"+v] = true
					}
				}
			}
		}
		var got []string
		var measOrder []string
		if q.API == "TagKeys" {
			res, err := env.TS.TagKeys(ctx, auth, ids, cond)
			if err != nil {
				viol("metadata_error", nil, err.Error(), nil, nil, nil)
				return
			}
			for _, tk := range res {
				if len(tk.Keys) == 0 {
					r.Event("entries_with_no_keys", 1) // dropped by the statement executor; not a listing
					continue
				}
				measOrder = append(measOrder, tk.Measurement)
				if i := c17SortedUnique(tk.Keys); i >= 0 {
					viol("not_sorted_or_duplicated", map[string]string{"level": "keys"}, fmt.Sprintf("measurement %q position %d", tk.Measurement, i), tk.Keys, nil, nil)
					return
				}
				for _, k := range tk.Keys {
					got = append(got, tk.Measurement+"\x00"+k)
				}
			}
		} else {
			res, err := env.TS.TagValues(ctx, auth, ids, cond)
			if err != nil {
				viol("metadata_error", nil, err.Error(), nil, nil, nil)
				return
			}
			for _, tv := range res {
				if len(tv.Values) == 0 {
					r.Event("entries_with_no_values", 1)
					continue
				}
				measOrder = append(measOrder, tv.Measurement)
				var kvs []string
				for _, kv := range tv.Values {
					kvs = append(kvs, kv.Key+"\x00"+kv.Value)
					got = append(got, tv.Measurement+"\x00"+kv.Key+"\x00"+kv.Value)
				}
				if i := c17SortedUnique(kvs); i >= 0 {
					viol("not_sorted_or_duplicated", map[string]string{"level": "values"}, fmt.Sprintf("measurement %q position %d", tv.Measurement, i), kvs, nil, nil)
					return
				}
			}
		}
		r.Event("names_returned_"+q.API, int64(len(got)))
		if i := c17SortedUnique(measOrder); i >= 0 {
			viol("not_sorted_or_duplicated", map[string]string{"level": "measurements"}, fmt.Sprintf("position %d", i), measOrder, nil, nil)
			return
		}
		missing, extra := c17SetDiff(c17SortedKeys(want), got)
		for _, e := range extra {
			p := strings.Split(e, "\x00")
			carries := func(s c17Series) bool {
				if s.Meas != p[0] || !nameOK(s.Meas) || (q.Filter != nil && !q.Filter.Eval(s.Meas, s.Tags, "")) {
					return false
				}
				v, ok := s.Tags[p[1]]
				return ok && keyOK(p[1]) && (len(p) == 2 || v == p[2])
			}
			class, cause := blame(carries)
			if class == "unexplained_name_returned" {
				for _, s := range w.Series {
					if v, ok := s.Tags[p[1]]; s.Meas == p[0] && ok && (len(p) == 2 || v == p[2]) {
						class = "name_not_matching_condition_returned" // carried, but by no series satisfying the condition
					}
				}
			}
			if class == "deleted_series_name_returned" {
				val := ""
				if len(p) == 3 {
					val = p[2]
				}
				cause = deadCause(p[1], val)
			}
			report(class, cause, fmt.Sprintf("%q is listed", e), got, c17SortedKeys(want))
			if cause == "" || cause == "unknown" {
				return
			}
		}
		if len(missing) > 0 {
			viol("live_name_missing", nil, fmt.Sprintf("%q: a visible live series satisfying the condition carries it, but it is not listed", missing), got, c17SortedKeys(want), nil)
			return
		}
		r.Case(fmt.Sprint(wi, x.log, phase, q.String()), len(want) > 0 && (len(hiddenLive)+len(dead) > 0))
	}
	r.Event("queries_"+q.API, 1)
	if q.Auth != nil {
		r.Event("queries_with_restricted_authorizer", 1)
	}
	if r.WantSample() && len(hiddenLive) > 0 && len(dead) > 0 && q.cond() != nil && len(q.String()) < 400 {
		r.Sample(map[string]any{"world": wi, "query": q.String(), "live_visible_series": len(live) - len(hiddenLive), "live_hidden_series": len(hiddenLive), "deleted_series": len(dead)})
	}
}

func TestC42(t *testing.T) {
	r := vkit.Start(t, "C42", "exploration")
	defer r.Finish()
	r.Rule("worlds: a bucket with 3 one-hour shard groups, <= 10 series over a collision-heavy tag domain (escaped names), writes, cache snapshots and deletes that empty series in a whole shard group or everywhere; " +
		"queries: MeasurementNames (condition trees over the name and tags), TagKeys / TagValues over random shard subsets with FROM-, WITH KEY- and WHERE-style condition parts, under the open authorizer or a hash-based authorizer hiding 1/4..3/4 of the series; a second batch of queries follows one more delete. " +
		"non-trivial: something must be listed and the world holds a hidden or a deleted series; distinct = hash(world setup, phase, query)")
	r.Assume("MeasurementNames conditions with negated tag comparisons, comparisons matching the empty string, or AND are bounded (must ⊆ result ⊆ may) because per-series and per-measurement readings differ; everything else is compared exactly",
		"TagKeys/TagValues entries with an empty key/value list are not listings (the statement executor drops them)")
	nWorlds := r.N(120, 800)
	perPhase := r.N(20, 30)
	var calls int64
	only := os.Getenv("VERIF_ONLY")
	for wi := 0; wi < nWorlds; wi++ {
		if only != "" && only != fmt.Sprintf("world:%d", wi) {
			continue
		}
		x, rg := c42Build(r, t, wi)
		if x == nil {
			continue
		}
		reported := map[string]bool{}
		for _, phase := range []string{"after_setup", "after_further_delete"} {
			if phase == "after_further_delete" && !x.delete(r, rg) {
				break
			}
			if !x.storedIsModel(r) {
				r.Event("worlds_skipped_setup_delete_defect", 1)
				break
			}
			for qi := 0; qi < perPhase; qi++ {
				c42Run(r, x, wi, c42GenQuery(rg, x.w, &calls), phase, reported)
			}
		}
		r.Event("worlds", 1)
		x.env.Close()
	}
	r.Extra("authorizer_calls", calls)
}
