package g_store

// C21 — storage read requests return exactly the stored series and points (DESIGN §5 C21).
// Subject: v1/services/storage.Store ReadFilter / ReadGroup over a real storage.Engine with data
// in three shard groups (TSM files + cache, overwrites, tombstones). Oracle: M1 + the independent
// predicate evaluator of the kit + a grouping model.

import (
	"bytes"
	"context"
	"fmt"
	"math"
	"os"
	"sort"
	"strings"
	"testing"

	"github.com/influxdata/influxdb/v2/storage/reads/datatypes"

	"verifharness/vkit"
	"verifharness/vkit/sk"
)

type c21World struct {
	env *c17Env
	w   *c17World
	m   *sk.Model
	log []string
}

func c21Build(r *vkit.Run, t *testing.T, wi int) *c21World {
	rg := r.SubRand("world", wi)
	env, err := c17Open(t.TempDir())
	if err != nil {
		r.Inconclusive("engine_open_failed")
		return nil
	}
	var ctr int64
	x := &c21World{env: env, m: sk.NewModel()}
	x.w = c17NewWorld(rg, 3, 10, &ctr)
	steps := rg.Range(6, 12)
	setupDeletes := 0
	for s := 0; s < steps; s++ {
		switch k := rg.Intn(10); {
		case s < 2 || k < 6:
			pts, recs := x.w.Batch(rg, rg.Range(6, 24), x.m)
			if tr := os.Getenv("C21_TRACE"); tr != "" {
				for _, rec := range recs {
					if strings.Contains(rec.Series, tr) {
						fmt.Printf("TRACE step %d write %v\n", s, rec)
					}
				}
			}
			if err := env.Write(pts); err != nil {
				r.Inconclusive("setup_write_failed")
				env.Close()
				return nil
			}
			x.log = append(x.log, fmt.Sprintf("write %d points", len(pts)))
		case k < 9:
			for _, g := range env.Groups() {
				if rg.Chance(2, 3) {
					if env.Snapshot(g.ShardID) == nil {
						x.log = append(x.log, fmt.Sprintf("snapshot shard %d", g.ShardID))
					}
				}
			}
		default:
			// a range delete (protobuf predicate or none): reads must honour tombstones too
			d := c17Del{Min: x.w.Bound(rg), Max: x.w.Bound(rg), Mode: "nil"}
			if d.Min > d.Max {
				d.Min, d.Max = d.Max, d.Min
			}
			if rg.Bool() {
				d.Mode, d.Expr = "proto", c17Cmp("t0", "=", vkit.Pick(rg, x.w.Vals["t0"]))
			}
			pred, me, err := d.Build()
			if err != nil {
				continue
			}
			d.Apply(x.w, x.m)
			setupDeletes++
			if err := env.Delete(d.Min, d.Max, pred, me); err != nil {
				r.Inconclusive("setup_delete_failed")
				env.Close()
				return nil
			}
			x.log = append(x.log, d.String())
		}
	}
	// what is stored must be what the model says (read through the shards' own cursors, not through
	// storage/reads): a setup delete that tripped a delete defect (C17's subject) disqualifies the world
	cc := &c17Ctx{r: r, env: env, w: x.w, m: x.m}
	for _, skey := range x.m.SeriesKeys() {
		for _, f := range x.m.Fields(skey) {
			got := cc.directRead(x.w.ByKey[skey], f, env.Groups())
			sort.Slice(got, func(i, j int) bool { return got[i].T < got[j].T })
			if d := sk.Diff(x.m.Read(skey, f, sk.MinT, sk.MaxT, true), got); d != "" {
				if setupDeletes == 0 {
					// nothing was deleted: the shards' cursors must return what was written
					r.Violation("written_points_not_read_back", map[string]string{"via": "shard_cursor", "setup_deletes": "0"},
						map[string]any{"world": wi, "setup": x.log, "series": skey, "field": f, "diff": d})
					env.Close()
					return nil
				}
				r.Event("worlds_skipped_setup_delete_defect", 1)
				env.Close()
				return nil
			}
		}
	}
	// ... and every series that has points in a shard must be listed by that shard's index: the
	// reads under test find their series through the index (a delete defect that drops a series
	// with data from the index leaves the direct reads above intact)
	for _, g := range env.Groups() {
		listed, err := env.SeriesKeys(nil, []uint64{g.ShardID}, nil)
		if err != nil {
			r.Inconclusive("setup_series_listing_failed")
			env.Close()
			return nil
		}
		have := map[string]bool{}
		for _, k := range listed {
			have[k] = true
		}
		for _, skey := range x.m.SeriesKeys() {
			inShard := false
			for _, f := range x.m.Fields(skey) {
				if len(x.m.Read(skey, f, g.Start, g.End-1, true)) > 0 {
					inShard = true
				}
			}
			if inShard && !have[skey] {
				if setupDeletes == 0 {
					r.Violation("series_with_points_not_indexed", map[string]string{"via": "shard_index", "setup_deletes": "0"},
						map[string]any{"world": wi, "setup": x.log, "series": skey, "shard": g.ShardID, "listed": listed})
				} else {
					r.Event("worlds_skipped_setup_delete_defect", 1)
					r.Event("worlds_skipped_series_with_points_not_indexed", 1)
				}
				env.Close()
				return nil
			}
		}
	}
	return x
}

type c21Req struct {
	Kind       string // "filter" | "group_by" | "group_none"
	Start, End int64  // [Start, End)
	Pred       *c17Expr
	GroupKeys  []string
}

func (q c21Req) String() string {
	return fmt.Sprintf("%s [%d,%d) pred=%s keys=%q", q.Kind, q.Start, q.End, q.Pred.String(), q.GroupKeys)
}

func c21GenReq(rg *vkit.Rand, w *c17World, maxCtr int64) c21Req {
	q := c21Req{Kind: []string{"filter", "filter", "group_by", "group_by", "group_none"}[rg.Intn(5)]}
	switch rg.Intn(4) {
	case 0:
		q.Start, q.End = -1<<63, 1<<63-1
	default:
		q.Start, q.End = w.Bound(rg), w.Bound(rg)
		if q.Start > q.End {
			q.Start, q.End = q.End, q.Start
		}
		if q.Start == q.End {
			if q.End == 1<<63-1 {
				q.Start--
			} else {
				q.End++
			}
		}
	}
	keys := append([]string{"_measurement", "_field", "zz"}, w.Keys...)
	var fields []string
	seen := map[string]bool{}
	for _, fs := range w.Fields {
		for _, f := range fs {
			if !seen[f.Name] {
				seen[f.Name] = true
				fields = append(fields, f.Name)
			}
		}
	}
	sort.Strings(fields)
	lit := func(k string) string {
		switch k {
		case "_measurement":
			if rg.Chance(1, 8) {
				return "nosuch"
			}
			return vkit.Pick(rg, w.Meas)
		case "_field":
			if rg.Chance(1, 8) {
				return "nosuch"
			}
			return vkit.Pick(rg, fields)
		case "zz":
			return vkit.Pick(rg, []string{"a", ""})
		case "_value":
			return fmt.Sprint(rg.Intn(int(maxCtr) + 2))
		}
		switch rg.Intn(10) {
		case 0:
			return ""
		case 1:
			return vkit.Pick(rg, c17ValPool)
		}
		return vkit.Pick(rg, w.Vals[k])
	}
	if !rg.Chance(1, 6) {
		pk := keys
		if rg.Chance(1, 3) { // field-value comparisons in a third of the predicates
			pk = append(append([]string{}, keys...), "_value", "_value")
		}
		q.Pred = c17GenExpr(rg, rg.Intn(4), pk, lit, []string{"=", "=", "!=", "=~", "!~"})
	}
	if q.Kind == "group_by" {
		p := rg.Perm(len(keys))
		for _, i := range p[:rg.Intn(4)] {
			q.GroupKeys = append(q.GroupKeys, keys[i])
		}
	}
	return q
}

type c21Wit struct {
	World   int      `json:"world"`
	Setup   []string `json:"setup"`
	Request string   `json:"request"`
	What    string   `json:"what"`
	Detail  any      `json:"detail,omitempty"`
}

// c21Expected computes the rows a request must return: (series, field) -> points, for rows that
// satisfy the predicate and have at least one point in range; plus all candidate rows.
func c21Expected(x *c21World, q c21Req) (want map[[2]string][]sk.Pt, matches, either map[[2]string]bool, excluded, clipped int) {
	lo, hi := q.Start, q.End-1
	if lo < sk.MinT {
		lo = sk.MinT
	}
	if q.End >= sk.MaxT {
		hi = sk.MaxT - 1 // the service clamps End to MaxNanoTime and reads [Start, End)
	}
	want, matches, either = map[[2]string][]sk.Pt{}, map[[2]string]bool{}, map[[2]string]bool{}
	hasValue := q.Pred != nil && q.Pred.HasValue()
	for skey, fs := range x.m.S {
		s := x.w.ByKey[skey]
		for f, fd := range fs {
			k := [2]string{skey, f}
			pts := x.m.Read(skey, f, lo, hi, true)
			if hasValue {
				// field-value comparisons select points; only integer and float fields have a
				// documented comparison with a numeric literal, other types are not judged when
				// the outcome depends on the value comparison
				t, f0 := q.Pred.EvalV(s.Meas, s.Tags, f, 1, 0), q.Pred.EvalV(s.Meas, s.Tags, f, 2, 0)
				switch {
				case !t && !f0:
					if len(fd.P) > 0 {
						excluded++
					}
					continue
				case t && f0:
				case fd.K != 'i' && fd.K != 'f':
					either[k] = true
					continue
				default:
					kept := pts[:0:0]
					for _, p := range pts {
						v := float64(p.V.I)
						if fd.K == 'f' {
							v = math.Float64frombits(p.V.F)
						}
						if q.Pred.EvalV(s.Meas, s.Tags, f, 0, v) {
							kept = append(kept, p)
						}
					}
					if len(kept) < len(pts) {
						clipped++
					}
					pts = kept
				}
			} else if q.Pred != nil && !q.Pred.Eval(s.Meas, s.Tags, f) {
				if len(fd.P) > 0 {
					excluded++
				}
				continue
			}
			matches[k] = true
			if len(pts) < len(fd.P) {
				clipped++
			}
			if len(pts) > 0 {
				want[k] = pts
			}
		}
	}
	return
}

func c21TupleLess(a, b [][]byte, nilHigh bool) int {
	for i := range a {
		an, bn := len(a[i]) == 0, len(b[i]) == 0
		switch {
		case an && bn:
			continue
		case an:
			if nilHigh {
				return 1
			}
			return -1
		case bn:
			if nilHigh {
				return -1
			}
			return 1
		}
		if c := bytes.Compare(a[i], b[i]); c != 0 {
			return c
		}
	}
	return 0
}

func c21Run(r *vkit.Run, x *c21World, wi int, q c21Req) {
	env := x.env
	viol := func(class string, feats map[string]string, what string, detail any) {
		f := map[string]string{"request": q.Kind}
		for k, v := range feats {
			f[k] = v
		}
		r.Event("violations_"+class+"_"+f["value_cmp"], 1)
		r.Violation(class, f, c21Wit{World: wi, Setup: x.log, Request: q.String(), What: what, Detail: detail})
	}
	want, matches, either, excluded, clipped := c21Expected(x, q)
	if q.Pred != nil && q.Pred.HasValue() {
		r.Event("requests_with_field_value_comparison", 1)
	}
	var pred *datatypes.Predicate
	if q.Pred != nil {
		pred = &datatypes.Predicate{Root: q.Pred.Node("_measurement")}
	}
	var rows []c17Row
	var groupVals [][][]byte
	ctx := context.Background()
	switch q.Kind {
	case "filter":
		req := &datatypes.ReadFilterRequest{ReadSource: env.src, Range: &datatypes.TimestampRange{Start: q.Start, End: q.End}, Predicate: pred}
		rs, err := env.St.ReadFilter(ctx, req)
		if err != nil {
			viol("read_error", nil, err.Error(), nil)
			return
		}
		if rs != nil {
			rows, err = c17DrainRS(rs)
			rs.Close()
			if err != nil {
				viol("read_error", nil, err.Error(), nil)
				return
			}
		}
	default:
		req := &datatypes.ReadGroupRequest{ReadSource: env.src, Range: &datatypes.TimestampRange{Start: q.Start, End: q.End}, Predicate: pred,
			Group: datatypes.ReadGroupRequest_GroupNone}
		if q.Kind == "group_by" {
			req.Group = datatypes.ReadGroupRequest_GroupBy
			req.GroupKeys = q.GroupKeys
		}
		rs, err := env.St.ReadGroup(ctx, req)
		if err != nil {
			viol("read_error", nil, err.Error(), nil)
			return
		}
		if rs != nil {
			for gc := rs.Next(); gc != nil; gc = rs.Next() {
				var vals [][]byte
				for _, v := range gc.PartitionKeyVals() {
					vals = append(vals, append([]byte(nil), v...))
				}
				gi := len(groupVals)
				groupVals = append(groupVals, vals)
				for gc.Next() {
					row := c17RowOf(gc.Tags())
					row.Group = gi
					cur := gc.Cursor()
					if cur == nil {
						row.Nil = true
					} else {
						pts, err := sk.DrainCursor(cur)
						cur.Close()
						if err != nil {
							viol("read_error", nil, err.Error(), nil)
							return
						}
						row.Pts = pts
					}
					rows = append(rows, row)
				}
				gc.Close()
			}
			rs.Close()
		}
	}
	r.Event("requests_"+q.Kind, 1)
	r.Event("rows_returned", int64(len(rows)))
	// trigger feature: does the predicate compare field values, and does that decide this row
	valueFeat := func(series, field string) map[string]string {
		f := map[string]string{"value_cmp": "none"}
		if q.Pred != nil && q.Pred.HasValue() {
			s := x.w.ByKey[series]
			f["value_cmp"] = "decides_this_row"
			if q.Pred.EvalV(s.Meas, s.Tags, field, 1, 0) == q.Pred.EvalV(s.Meas, s.Tags, field, 2, 0) {
				f["value_cmp"] = "elsewhere_in_predicate_constant_for_this_row"
			}
		}
		return f
	}
	// rows: each matching series once, exactly its points in range, in order
	seen := map[[2]string]int{}
	rowGroup := map[[2]string]int{}
	for _, row := range rows {
		k := [2]string{row.Series, row.Field}
		if _, known := x.w.ByKey[row.Series]; !known {
			viol("unknown_series_returned", nil, fmt.Sprintf("row %s field %q was never written", row.Series, row.Field), nil)
			return
		}
		if len(row.Pts) == 0 {
			r.Event("rows_without_points", 1)
			continue
		}
		if either[k] {
			r.Event("rows_not_judged_value_comparison_on_other_type", 1)
			continue
		}
		r.Event("rows_with_points", 1)
		seen[k]++
		if seen[k] > 1 {
			viol("series_returned_twice", nil, fmt.Sprintf("%s field %q appears %d times with points", row.Series, row.Field, seen[k]), nil)
			return
		}
		rowGroup[k] = row.Group
		if !matches[k] {
			viol("nonmatching_series_returned", nil, fmt.Sprintf("%s field %q does not satisfy the predicate but is returned with %s", row.Series, row.Field, sk.FmtPts(row.Pts)), nil)
			return
		}
		if d := sk.Diff(want[k], row.Pts); d != "" {
			cls := "points_mismatch"
			if len(row.Pts) > len(want[k]) {
				cls = "extra_or_duplicate_points"
			} else if len(row.Pts) < len(want[k]) {
				cls = "points_dropped"
			}
			f := valueFeat(row.Series, row.Field)
			viol(cls, f, fmt.Sprintf("%s field %q", row.Series, row.Field), d)
			return
		}
	}
	for k, pts := range want {
		if seen[k] == 0 {
			viol("matching_series_missing", valueFeat(k[0], k[1]), fmt.Sprintf("%s field %q satisfies the predicate and has %s in range but is not returned", k[0], k[1], sk.FmtPts(pts)), nil)
			return
		}
	}
	// groups
	if q.Kind == "group_by" {
		r.Event("groups_returned", int64(len(groupVals)))
		for gi, vals := range groupVals {
			if len(vals) != len(q.GroupKeys) {
				viol("group_key_arity", nil, fmt.Sprintf("group %d has %d key values for %d group keys", gi, len(vals), len(q.GroupKeys)), nil)
				return
			}
		}
		// every series in exactly one group, and in the group of its own key values
		for _, row := range rows {
			if len(row.Pts) == 0 || either[[2]string{row.Series, row.Field}] {
				continue
			}
			for i, gk := range q.GroupKeys {
				var v string
				switch gk {
				case "_measurement":
					v = row.Meas
				case "_field":
					v = row.Field
				default:
					v = row.Tags[gk]
				}
				if v != string(groupVals[row.Group][i]) {
					viol("series_in_wrong_group", nil, fmt.Sprintf("%s field %q has %s=%q but sits in group %q", row.Series, row.Field, gk, v, groupVals[row.Group]), nil)
					return
				}
			}
		}
		// groups distinct and ordered by group key (a missing value sorts consistently first or last)
		okHigh, okLow := true, true
		for gi := 1; gi < len(groupVals); gi++ {
			if c21TupleLess(groupVals[gi-1], groupVals[gi], true) >= 0 {
				okHigh = false
			}
			if c21TupleLess(groupVals[gi-1], groupVals[gi], false) >= 0 {
				okLow = false
			}
			if c21TupleLess(groupVals[gi-1], groupVals[gi], true) == 0 {
				viol("group_split", nil, fmt.Sprintf("groups %d and %d have the same key %q", gi-1, gi, groupVals[gi]), nil)
				return
			}
		}
		// non-adjacent equal keys
		dup := map[string]int{}
		for gi, vals := range groupVals {
			k := fmt.Sprintf("%q", vals)
			if pj, ok := dup[k]; ok {
				viol("group_split", nil, fmt.Sprintf("groups %d and %d have the same key %s", pj, gi, k), nil)
				return
			}
			dup[k] = gi
		}
		if !okHigh && !okLow {
			var ks []string
			for _, v := range groupVals {
				ks = append(ks, fmt.Sprintf("%q", v))
			}
			viol("groups_not_ordered", nil, "group keys are not in ascending order", ks)
			return
		}
	} else if q.Kind == "group_none" && len(groupVals) > 1 {
		viol("group_none_several_groups", nil, fmt.Sprintf("%d groups", len(groupVals)), nil)
		return
	}
	nshards := map[int64]bool{}
	for _, pts := range want {
		for _, p := range pts {
			nshards[(p.T-c17Base)/c17Hour] = true
		}
	}
	if len(nshards) > 1 {
		r.Event("requests_spanning_several_shards", 1)
	}
	r.Case(fmt.Sprint(wi, x.log, q.String()), len(want) > 0 && (excluded > 0 || clipped > 0))
	if r.WantSample() && len(want) > 1 && excluded > 0 && len(nshards) > 1 {
		r.Sample(map[string]any{"world": wi, "request": q.String(), "matching_rows_with_points": len(want), "rows_excluded_by_predicate": excluded, "rows_clipped_by_range": clipped, "groups": len(groupVals), "shard_groups_touched": len(nshards)})
	}
}

func TestC21(t *testing.T) {
	r := vkit.Start(t, "C21", "exploration")
	defer r.Finish()
	r.Rule("worlds: a bucket with 3 one-hour shard groups, <= 10 series over a collision-heavy tag domain, 1-3 typed fields, points on a grid of shard-boundary timestamps with overwrites, cache snapshots and range deletes interleaved; " +
		"per world a list of requests ReadFilter / ReadGroup(by 0-3 keys) / ReadGroup(none) with ranges from the grid (+-1, extremes) and random predicates (depth <= 3; = != =~ !~ on tags, _measurement, _field, absent keys, empty literals; AND/OR/parentheses). " +
		"non-trivial: >= 1 row must be returned and the predicate excludes a stored row or the range clips a stored row; distinct = hash(world setup, request)")
	r.Assume("rows returned with an empty or nil cursor are ignored (consumers skip them); the order of series inside a group and in filter reads is not asserted; a missing group-key value may sort first or last, consistently")
	nWorlds := r.N(72, 500)
	perWorld := r.N(34, 40)
	only := os.Getenv("VERIF_ONLY")
	for wi := 0; wi < nWorlds; wi++ {
		if only != "" && !strings.HasPrefix(only, fmt.Sprintf("world:%d:", wi)) && only != fmt.Sprintf("world:%d", wi) {
			continue
		}
		x := c21Build(r, t, wi)
		if x == nil {
			continue
		}
		r.Event("worlds", 1)
		rg := r.SubRand("req", wi)
		for qi := 0; qi < perWorld; qi++ {
			q := c21GenReq(rg, x.w, *x.w.ctr)
			if strings.Count(only, ":") == 2 && only != fmt.Sprintf("world:%d:%d", wi, qi) {
				continue
			}
			c21Run(r, x, wi, q)
		}
		x.env.Close()
	}
}
