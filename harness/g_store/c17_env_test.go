package g_store

// Shared kit of the g_store group (C17, C21, C42): a real storage.Engine assembled the way the
// launcher does it (meta client over the in-memory KV store, bucket = database named by the
// bucket ID with retention policy "autogen"), the v1 storage read service on top of it, the
// generators of the hostile small domain, the boolean tag-expression tree with its independent
// evaluator, and the readers that drain the real result sets. Helper names carry the c17 prefix.

import (
	"context"
	"fmt"
	"regexp"
	"sort"
	"strconv"
	"strings"
	"time"

	"github.com/influxdata/influxdb/v2"
	"github.com/influxdata/influxdb/v2/influxql/query"
	"github.com/influxdata/influxdb/v2/inmem"
	"github.com/influxdata/influxdb/v2/kit/platform"
	"github.com/influxdata/influxdb/v2/models"
	"github.com/influxdata/influxdb/v2/storage"
	"github.com/influxdata/influxdb/v2/storage/reads"
	"github.com/influxdata/influxdb/v2/storage/reads/datatypes"
	"github.com/influxdata/influxdb/v2/tsdb"
	"github.com/influxdata/influxdb/v2/tsdb/engine/tsm1"
	"github.com/influxdata/influxdb/v2/v1/services/meta"
	v1storage "github.com/influxdata/influxdb/v2/v1/services/storage"
	"github.com/influxdata/influxql"
	"google.golang.org/protobuf/types/known/anypb"

	"verifharness/vkit"
	"verifharness/vkit/sk"
)

const (
	c17Base = int64(1577836800) * 1e9 // 2020-01-01T00:00:00Z, far from now and from retention
	c17Hour = int64(3600) * 1e9
)

// ---- environment -------------------------------------------------------------------------

type c17Env struct {
	Dir    string
	KV     *inmem.KVStore
	MC     *meta.Client
	Eng    *storage.Engine
	TS     *tsdb.Store
	St     *v1storage.Store
	Org    platform.ID
	Bucket platform.ID
	DB     string
	src    *anypb.Any
}

func c17Open(dir string) (*c17Env, error) {
	ctx := context.Background()
	e := &c17Env{Dir: dir, Org: platform.ID(0x11), Bucket: platform.ID(0x22)}
	e.DB = e.Bucket.String()
	e.KV = inmem.NewKVStore()
	if err := e.KV.CreateBucket(ctx, meta.BucketName); err != nil {
		return nil, err
	}
	e.MC = meta.NewClient(meta.NewConfig(), e.KV)
	if err := e.MC.Open(); err != nil {
		return nil, err
	}
	if err := e.start(); err != nil {
		return nil, err
	}
	if err := e.Eng.CreateBucket(ctx, &influxdb.Bucket{ID: e.Bucket, OrgID: e.Org, ShardGroupDuration: time.Hour}); err != nil {
		return nil, err
	}
	e.src, _ = anypb.New(&v1storage.ReadSource{BucketID: uint64(e.Bucket), OrgID: uint64(e.Org)})
	return e, nil
}

func (e *c17Env) start() error {
	cfg := storage.NewConfig()
	cfg.RetentionService.Enabled = false
	cfg.PrecreatorConfig.Enabled = false
	cfg.WriteTimeout = 5 * time.Minute // the default 10 s fires on a loaded machine (shard creation under race)
	e.Eng = storage.NewEngine(e.Dir, cfg, storage.WithMetaClient(e.MC), storage.WithMetricsDisabled(true))
	if err := e.Eng.Open(context.Background()); err != nil {
		return err
	}
	e.TS = e.Eng.TSDBStore().(*tsdb.Store)
	e.St = v1storage.NewStore(e.TS, e.MC)
	return nil
}

// Restart closes the engine (shards are closed without flushing their caches) and opens a new
// one over the same directory and the same meta client.
func (e *c17Env) Restart() error {
	if err := e.Eng.Close(); err != nil {
		return err
	}
	return e.start()
}

func (e *c17Env) Close() {
	if e.Eng != nil {
		e.Eng.Close()
	}
	if e.MC != nil {
		e.MC.Close()
	}
}

func (e *c17Env) Write(pts []models.Point) error {
	return e.Eng.WritePoints(context.Background(), e.Org, e.Bucket, pts)
}

func (e *c17Env) Delete(min, max int64, pred influxdb.Predicate, meas influxql.Expr) error {
	return e.Eng.DeleteBucketRangePredicate(context.Background(), e.Org, e.Bucket, min, max, pred, meas)
}

type c17Group struct {
	Start, End int64 // [Start, End)
	ShardID    uint64
}

// Groups lists the bucket's live shard groups ordered by start time.
func (e *c17Env) Groups() []c17Group {
	gs, _ := e.MC.ShardGroupsByTimeRange(e.DB, meta.DefaultRetentionPolicyName, time.Unix(0, models.MinNanoTime), time.Unix(0, models.MaxNanoTime))
	var out []c17Group
	for _, g := range gs {
		for _, s := range g.Shards {
			out = append(out, c17Group{g.StartTime.UnixNano(), g.EndTime.UnixNano(), s.ID})
		}
	}
	sort.Slice(out, func(i, j int) bool { return out[i].Start < out[j].Start })
	return out
}

// Snapshot flushes the cache of one shard into a TSM file through the engine's own path.
func (e *c17Env) Snapshot(shardID uint64) error {
	sh := e.TS.Shard(shardID)
	if sh == nil {
		return fmt.Errorf("no shard %d", shardID)
	}
	eng, err := sh.Engine()
	if err != nil {
		return err
	}
	// The store disables snapshots of shards it considers idle and re-enables them on the next
	// write (Store.WriteToShard). The engine's own snapshot loop never runs while they are
	// disabled; calling WriteSnapshot in that state would fail half-way and leave the cache
	// snapshot in flight, a state the real system does not produce this way. Do what a write does.
	sh.SetCompactionsEnabled(true)
	return eng.(*tsm1.Engine).WriteSnapshot()
}

// ---- domain ------------------------------------------------------------------------------

type c17Field struct {
	Name string
	K    byte
}

type c17Series struct {
	Meas string
	Tags map[string]string
	Key  string
}

type c17World struct {
	NGroups int
	Meas    []string
	Keys    []string            // Keys[0] is present in every series
	Vals    map[string][]string // tag key -> value pool
	Fields  map[string][]c17Field
	Series  []c17Series
	ByKey   map[string]c17Series
	Times   []int64
	ctr     *int64
}

var (
	c17MeasPool = []string{"m0", "m0a", "m 1", "m,2", "m=3", "é"}
	c17KeyPool  = []string{"t1", "t 2", "t,3"}
	c17ValPool  = []string{"a", "ab", "a b", "a,b", "a=b", "é", "x", "a!"}
	c17FldPool  = []c17Field{{"f", 'i'}, {"g", 'f'}, {"s s", 's'}, {"u", 'u'}, {"b", 'b'}}
	c17Offsets  = []int64{0, 1, 2, 1800e9, c17Hour - 2, c17Hour - 1}
)

func c17Subset[T any](rg *vkit.Rand, pool []T, lo, hi int) []T {
	n := rg.Range(lo, hi)
	if n > len(pool) {
		n = len(pool)
	}
	p := rg.Perm(len(pool))[:n]
	sort.Ints(p)
	out := make([]T, n)
	for i, j := range p {
		out[i] = pool[j]
	}
	return out
}

func c17NewWorld(rg *vkit.Rand, nGroups, maxSeries int, ctr *int64) *c17World {
	w := &c17World{NGroups: nGroups, Vals: map[string][]string{}, Fields: map[string][]c17Field{}, ByKey: map[string]c17Series{}, ctr: ctr}
	w.Meas = c17Subset(rg, c17MeasPool, 2, 3)
	w.Keys = append([]string{"t0"}, c17Subset(rg, c17KeyPool, 1, 2)...)
	for _, k := range w.Keys {
		w.Vals[k] = c17Subset(rg, c17ValPool, 2, 3)
	}
	for _, m := range w.Meas {
		w.Fields[m] = c17Subset(rg, c17FldPool, 1, 3)
	}
	for g := 0; g < nGroups; g++ {
		for _, o := range c17Offsets {
			w.Times = append(w.Times, c17Base+int64(g)*c17Hour+o)
		}
	}
	n := rg.Range(3, maxSeries)
	for tries := 0; len(w.Series) < n && tries < 200; tries++ {
		s := c17Series{Meas: vkit.Pick(rg, w.Meas), Tags: map[string]string{}}
		s.Tags["t0"] = vkit.Pick(rg, w.Vals["t0"])
		for _, k := range w.Keys[1:] {
			if rg.Chance(1, 2) {
				s.Tags[k] = vkit.Pick(rg, w.Vals[k])
			}
		}
		s.Key = sk.SeriesKey(s.Meas, s.Tags)
		if _, dup := w.ByKey[s.Key]; dup {
			continue
		}
		w.ByKey[s.Key] = s
		w.Series = append(w.Series, s)
	}
	return w
}

func (w *c17World) nextVal(k byte) sk.Val {
	*w.ctr++
	c := *w.ctr
	switch k {
	case 'i':
		return sk.IntVal(c)
	case 'f':
		return sk.FloatVal(float64(c))
	case 's':
		return sk.StrVal(fmt.Sprintf("w%d", c))
	case 'u':
		return sk.UintVal(uint64(c))
	default:
		return sk.BoolVal(c%2 == 1)
	}
}

type c17PointRec struct {
	Series string            `json:"series"`
	T      int64             `json:"t"`
	Fields map[string]string `json:"fields"`
}

// Point builds one point of series s at time t with a random non-empty subset of the
// measurement's fields (all=true: every field) and applies it to the model.
func (w *c17World) Point(rg *vkit.Rand, s c17Series, t int64, all bool, m *sk.Model) (models.Point, c17PointRec) {
	fs := map[string]sk.Val{}
	rec := c17PointRec{Series: s.Key, T: t, Fields: map[string]string{}}
	fl := w.Fields[s.Meas]
	pick := rg.Intn(len(fl))
	for i, f := range fl {
		if all || i == pick || rg.Chance(1, 2) {
			v := w.nextVal(f.K)
			fs[f.Name] = v
			rec.Fields[f.Name] = v.String()
			if m != nil {
				m.Put(s.Key, f.Name, t, v)
			}
		}
	}
	return sk.Point(s.Meas, s.Tags, fs, t), rec
}

func (w *c17World) Batch(rg *vkit.Rand, n int, m *sk.Model) ([]models.Point, []c17PointRec) {
	var pts []models.Point
	var recs []c17PointRec
	for i := 0; i < n; i++ {
		p, rec := w.Point(rg, vkit.Pick(rg, w.Series), vkit.Pick(rg, w.Times), false, m)
		pts = append(pts, p)
		recs = append(recs, rec)
	}
	return pts, recs
}

// Bound draws a range endpoint: a grid time, one off it, or an extreme.
func (w *c17World) Bound(rg *vkit.Rand) int64 {
	switch rg.Intn(10) {
	case 0:
		return vkit.Pick(rg, []int64{-1 << 63, models.MinNanoTime, influxql.MinTime, 0, c17Base - 1})
	case 1:
		return vkit.Pick(rg, []int64{1<<63 - 1, models.MaxNanoTime, influxql.MaxTime, c17Base + int64(w.NGroups)*c17Hour})
	default:
		return vkit.Pick(rg, w.Times) + int64(rg.Intn(3)-1)
	}
}

// ---- live-series model ---------------------------------------------------------------------

// c17Live returns the series keys that have at least one remaining point whose timestamp lies in
// one of the half-open windows (nil windows: anywhere).
func c17Live(m *sk.Model, windows []c17Group) map[string]bool {
	live := map[string]bool{}
	for skey, fs := range m.S {
	series:
		for _, f := range fs {
			for t := range f.P {
				if windows == nil {
					live[skey] = true
					break series
				}
				for _, w := range windows {
					if t >= w.Start && t < w.End {
						live[skey] = true
						break series
					}
				}
			}
		}
	}
	return live
}

// c17AllowAll authorizes everything but is not the "open" authorizer, so the metadata code takes
// its per-series authorization paths.
type c17AllowAll struct{}

func (c17AllowAll) AuthorizeDatabase(influxql.Privilege, string) bool     { return true }
func (c17AllowAll) AuthorizeQuery(string, *influxql.Query) error          { return nil }
func (c17AllowAll) AuthorizeSeriesRead(string, []byte, models.Tags) bool  { return true }
func (c17AllowAll) AuthorizeSeriesWrite(string, []byte, models.Tags) bool { return true }

// ---- expressions -----------------------------------------------------------------------------

// c17Expr is a boolean expression over (measurement, tags, field): comparisons = != =~ !~ of a
// key with a literal, AND, OR, parentheses. Key "_measurement" / "_field" name the measurement and
// the field; an absent tag compares as the empty string.
type c17Expr struct {
	Op   string // "cmp", "and", "or", "paren"
	Kids []*c17Expr
	Key  string
	Cmp  string
	Val  string
	re   *regexp.Regexp
}

func c17Cmp(key, cmp, val string) *c17Expr {
	e := &c17Expr{Op: "cmp", Key: key, Cmp: cmp, Val: val}
	if cmp == "=~" || cmp == "!~" {
		e.re = regexp.MustCompile(val)
	}
	return e
}

func (e *c17Expr) String() string {
	if e == nil {
		return "<nil>"
	}
	switch e.Op {
	case "cmp":
		if e.re != nil {
			return fmt.Sprintf("%q %s /%s/", e.Key, e.Cmp, e.Val)
		}
		if e.Key == "_value" {
			return fmt.Sprintf("_value %s %s", e.Cmp, e.Val)
		}
		return fmt.Sprintf("%q %s '%s'", e.Key, e.Cmp, e.Val)
	case "paren":
		return "(" + e.Kids[0].String() + ")"
	default:
		var p []string
		for _, k := range e.Kids {
			p = append(p, k.String())
		}
		return strings.Join(p, " "+strings.ToUpper(e.Op)+" ")
	}
}

// Eval is the independent evaluator (expressions without field-value comparisons).
func (e *c17Expr) Eval(meas string, tags map[string]string, field string) bool {
	return e.EvalV(meas, tags, field, 2, 0)
}

// HasValue reports whether the expression compares the field value.
func (e *c17Expr) HasValue() bool {
	has := false
	e.Walk(func(x *c17Expr) {
		if x.Op == "cmp" && x.Key == "_value" {
			has = true
		}
	})
	return has
}

// EvalV evaluates with field-value comparisons ("_value" < <= > >= = != integer literal):
// mode 0 compares value, mode 1 assumes every value comparison true, mode 2 false.
func (e *c17Expr) EvalV(meas string, tags map[string]string, field string, mode int, value float64) bool {
	switch e.Op {
	case "cmp":
		if e.Key == "_value" {
			if mode != 0 {
				return mode == 1
			}
			lit, _ := strconv.ParseFloat(e.Val, 64)
			switch e.Cmp {
			case "<":
				return value < lit
			case "<=":
				return value <= lit
			case ">":
				return value > lit
			case ">=":
				return value >= lit
			case "=":
				return value == lit
			default:
				return value != lit
			}
		}
		var v string
		switch e.Key {
		case "_measurement":
			v = meas
		case "_field":
			v = field
		default:
			v = tags[e.Key]
		}
		switch e.Cmp {
		case "=":
			return v == e.Val
		case "!=":
			return v != e.Val
		case "=~":
			return e.re.MatchString(v)
		default:
			return !e.re.MatchString(v)
		}
	case "paren":
		return e.Kids[0].EvalV(meas, tags, field, mode, value)
	case "and":
		for _, k := range e.Kids {
			if !k.EvalV(meas, tags, field, mode, value) {
				return false
			}
		}
		return true
	default:
		for _, k := range e.Kids {
			if k.EvalV(meas, tags, field, mode, value) {
				return true
			}
		}
		return false
	}
}

func (e *c17Expr) Walk(f func(*c17Expr)) {
	f(e)
	for _, k := range e.Kids {
		k.Walk(f)
	}
}

// Node renders the expression as a storage predicate tree. measRef is the tag reference used for
// the measurement ("_measurement" for read requests, "\x00" for delete predicates).
func (e *c17Expr) Node(measRef string) *datatypes.Node {
	switch e.Op {
	case "cmp":
		if e.Key == "_value" {
			n, _ := strconv.ParseInt(e.Val, 10, 64)
			cmp := map[string]datatypes.Node_Comparison{"<": datatypes.Node_ComparisonLess, "<=": datatypes.Node_ComparisonLessEqual, ">": datatypes.Node_ComparisonGreater,
				">=": datatypes.Node_ComparisonGreaterEqual, "=": datatypes.Node_ComparisonEqual, "!=": datatypes.Node_ComparisonNotEqual}[e.Cmp]
			return &datatypes.Node{
				NodeType: datatypes.Node_TypeComparisonExpression,
				Value:    &datatypes.Node_Comparison_{Comparison: cmp},
				Children: []*datatypes.Node{
					{NodeType: datatypes.Node_TypeFieldRef, Value: &datatypes.Node_FieldRefValue{FieldRefValue: "_value"}},
					{NodeType: datatypes.Node_TypeLiteral, Value: &datatypes.Node_IntegerValue{IntegerValue: n}},
				},
			}
		}
		key := e.Key
		if key == "_measurement" {
			key = measRef
		}
		var cmp datatypes.Node_Comparison
		lit := &datatypes.Node{NodeType: datatypes.Node_TypeLiteral, Value: &datatypes.Node_StringValue{StringValue: e.Val}}
		switch e.Cmp {
		case "=":
			cmp = datatypes.Node_ComparisonEqual
		case "!=":
			cmp = datatypes.Node_ComparisonNotEqual
		case "=~":
			cmp = datatypes.Node_ComparisonRegex
			lit.Value = &datatypes.Node_RegexValue{RegexValue: e.Val}
		default:
			cmp = datatypes.Node_ComparisonNotRegex
			lit.Value = &datatypes.Node_RegexValue{RegexValue: e.Val}
		}
		return &datatypes.Node{
			NodeType: datatypes.Node_TypeComparisonExpression,
			Value:    &datatypes.Node_Comparison_{Comparison: cmp},
			Children: []*datatypes.Node{
				{NodeType: datatypes.Node_TypeTagRef, Value: &datatypes.Node_TagRefValue{TagRefValue: key}},
				lit,
			},
		}
	case "paren":
		return &datatypes.Node{NodeType: datatypes.Node_TypeParenExpression, Children: []*datatypes.Node{e.Kids[0].Node(measRef)}}
	default:
		lg := datatypes.Node_LogicalAnd
		if e.Op == "or" {
			lg = datatypes.Node_LogicalOr
		}
		// binary, left-deep (delete predicates accept exactly two children)
		cur := e.Kids[0].Node(measRef)
		for _, k := range e.Kids[1:] {
			cur = &datatypes.Node{NodeType: datatypes.Node_TypeLogicalExpression, Value: &datatypes.Node_Logical_{Logical: lg},
				Children: []*datatypes.Node{cur, k.Node(measRef)}}
		}
		return cur
	}
}

// Influx renders the expression as an InfluxQL condition as the metadata API of tsdb.Store
// expects it (measurement is "_name").
func (e *c17Expr) Influx() influxql.Expr {
	switch e.Op {
	case "cmp":
		key := e.Key
		if key == "_measurement" {
			key = "_name"
		}
		be := &influxql.BinaryExpr{LHS: &influxql.VarRef{Val: key}}
		switch e.Cmp {
		case "=":
			be.Op, be.RHS = influxql.EQ, &influxql.StringLiteral{Val: e.Val}
		case "!=":
			be.Op, be.RHS = influxql.NEQ, &influxql.StringLiteral{Val: e.Val}
		case "=~":
			be.Op, be.RHS = influxql.EQREGEX, &influxql.RegexLiteral{Val: regexp.MustCompile(e.Val)}
		default:
			be.Op, be.RHS = influxql.NEQREGEX, &influxql.RegexLiteral{Val: regexp.MustCompile(e.Val)}
		}
		return be
	case "paren":
		return &influxql.ParenExpr{Expr: e.Kids[0].Influx()}
	default:
		op := influxql.AND
		if e.Op == "or" {
			op = influxql.OR
		}
		cur := e.Kids[0].Influx()
		for _, k := range e.Kids[1:] {
			cur = &influxql.BinaryExpr{Op: op, LHS: cur, RHS: k.Influx()}
		}
		return cur
	}
}

var c17Regexes = []string{"^a$", "^a", "a", "^(a|ab)$", ".*", "^$", "b$", "é", "^m0", "x|f", "^.$", ",|="}

// c17GenExpr draws a random expression of the given depth. keys are candidate comparison keys,
// lit yields a literal for a key, ops the permitted comparison operators.
func c17GenExpr(rg *vkit.Rand, depth int, keys []string, lit func(key string) string, ops []string) *c17Expr {
	if depth <= 0 || rg.Chance(2, 5) {
		k := vkit.Pick(rg, keys)
		op := vkit.Pick(rg, ops)
		if k == "_value" {
			return c17Cmp(k, vkit.Pick(rg, []string{"<", "<=", ">", ">=", "=", "!="}), lit(k))
		}
		if op == "=~" || op == "!~" {
			return c17Cmp(k, op, vkit.Pick(rg, c17Regexes))
		}
		return c17Cmp(k, op, lit(k))
	}
	op := "and"
	if rg.Bool() {
		op = "or"
	}
	n := 2
	if rg.Chance(1, 4) {
		n = 3
	}
	e := &c17Expr{Op: op}
	for i := 0; i < n; i++ {
		k := c17GenExpr(rg, depth-1, keys, lit, ops)
		if (k.Op == "and" || k.Op == "or") && (k.Op != op || rg.Bool()) {
			k = &c17Expr{Op: "paren", Kids: []*c17Expr{k}}
		}
		e.Kids = append(e.Kids, k)
	}
	return e
}

// ---- readers -----------------------------------------------------------------------------------

type c17Row struct {
	Meas   string
	Field  string
	Tags   map[string]string
	Series string
	Nil    bool // Cursor() returned nil
	Pts    []sk.Pt
	Group  int // index of the group the row came from (group reads)
}

func c17RowOf(tags models.Tags) c17Row {
	r := c17Row{Tags: map[string]string{}}
	for _, t := range tags {
		switch string(t.Key) {
		case "_measurement":
			r.Meas = string(t.Value)
		case "_field":
			r.Field = string(t.Value)
		default:
			r.Tags[string(t.Key)] = string(t.Value)
		}
	}
	r.Series = sk.SeriesKey(r.Meas, r.Tags)
	return r
}

// ReadFilter issues a filter read over [start,end) and drains every row.
func (e *c17Env) ReadFilter(start, end int64, pred *datatypes.Node) ([]c17Row, error) {
	req := &datatypes.ReadFilterRequest{ReadSource: e.src, Range: &datatypes.TimestampRange{Start: start, End: end}}
	if pred != nil {
		req.Predicate = &datatypes.Predicate{Root: pred}
	}
	rs, err := e.St.ReadFilter(context.Background(), req)
	if err != nil {
		return nil, err
	}
	if rs == nil {
		return nil, nil
	}
	defer rs.Close()
	return c17DrainRS(rs)
}

func c17DrainRS(rs reads.ResultSet) ([]c17Row, error) {
	var rows []c17Row
	for rs.Next() {
		row := c17RowOf(rs.Tags())
		cur := rs.Cursor()
		if cur == nil {
			row.Nil = true
		} else {
			pts, err := sk.DrainCursor(cur)
			cur.Close()
			if err != nil {
				return rows, err
			}
			row.Pts = pts
		}
		rows = append(rows, row)
	}
	return rows, rs.Err()
}

// ---- metadata readers ------------------------------------------------------------------------

func (e *c17Env) ShardIDs(gs []c17Group) []uint64 {
	ids := make([]uint64, len(gs))
	for i, g := range gs {
		ids[i] = g.ShardID
	}
	return ids
}

// SeriesKeys lists series through the "_series" system iterator (the SHOW SERIES path).
func (e *c17Env) SeriesKeys(auth query.Authorizer, shardIDs []uint64, cond influxql.Expr) ([]string, error) {
	sg := e.TS.ShardGroup(shardIDs)
	itr, err := sg.CreateIterator(context.Background(), &influxql.Measurement{Database: e.DB, RetentionPolicy: meta.DefaultRetentionPolicyName, SystemIterator: "_series"},
		query.IteratorOptions{Aux: []influxql.VarRef{{Val: "key"}}, Authorizer: auth, Ascending: true, Ordered: true, Condition: cond})
	if err != nil || itr == nil {
		return nil, err
	}
	defer itr.Close()
	fi, ok := itr.(query.FloatIterator)
	if !ok {
		return nil, fmt.Errorf("_series iterator is %T", itr)
	}
	var out []string
	for {
		p, err := fi.Next()
		if err != nil {
			return out, err
		}
		if p == nil {
			return out, nil
		}
		out = append(out, p.Aux[0].(string))
	}
}

func c17SortedKeys[V any](m map[string]V) []string {
	out := make([]string, 0, len(m))
	for k := range m {
		out = append(out, k)
	}
	sort.Strings(out)
	return out
}

func c17SetDiff(want, got []string) (missing, extra []string) {
	w, g := map[string]bool{}, map[string]bool{}
	for _, x := range want {
		w[x] = true
	}
	for _, x := range got {
		g[x] = true
	}
	for _, x := range want {
		if !g[x] {
			missing = append(missing, x)
		}
	}
	for _, x := range got {
		if !w[x] {
			extra = append(extra, x)
		}
	}
	return
}

// c17SortedUnique reports the first out-of-order or duplicated position of a list, -1 if none.
func c17SortedUnique(xs []string) int {
	for i := 1; i < len(xs); i++ {
		if xs[i-1] >= xs[i] {
			return i
		}
	}
	return -1
}
