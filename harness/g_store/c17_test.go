package g_store

// C17 — bucket deletes remove exactly the matching data and reconcile metadata; writes that do
// not conflict with a running delete are never blocked by it (DESIGN §5 C17).

import (
	"context"
	"fmt"
	"os"
	"regexp"
	"runtime"
	"sort"
	"strings"
	"sync"
	"sync/atomic"
	"testing"
	"time"

	"github.com/influxdata/influxdb/v2"
	"github.com/influxdata/influxdb/v2/influxql/query"
	"github.com/influxdata/influxdb/v2/models"
	"github.com/influxdata/influxdb/v2/pkg/verifhook"
	"github.com/influxdata/influxdb/v2/predicate"
	"github.com/influxdata/influxdb/v2/storage/reads/datatypes"
	"github.com/influxdata/influxdb/v2/tsdb/cursors"
	"github.com/influxdata/influxdb/v2/tsdb/engine/tsm1"
	"github.com/influxdata/influxql"

	"verifharness/vkit"
	"verifharness/vkit/sk"
)

// ---- delete specifications ---------------------------------------------------------------------

type c17Del struct {
	Min, Max int64
	Mode     string   // "nil" | "string" (user path: predicate.Parse, AND only) | "proto" (tree, AND/OR)
	Expr     *c17Expr // nil: every series
	Str      string   // the user-path predicate text
	Shape    string   // coarse shape of the predicate, used as a violation feature
}

func (d c17Del) String() string {
	p := "<all>"
	if d.Expr != nil {
		p = d.Expr.String()
	}
	return fmt.Sprintf("delete[%d,%d] %s %s", d.Min, d.Max, d.Mode, p)
}

func c17Shape(e *c17Expr) string {
	if e == nil {
		return "none"
	}
	f := map[string]bool{}
	e.Walk(func(x *c17Expr) {
		switch {
		case x.Op == "or":
			f["or"] = true
		case x.Op == "cmp" && x.Key == "_measurement":
			f["meas"+map[string]string{"=": "_eq", "!=": "_neq"}[x.Cmp]] = true
		case x.Op == "cmp" && x.Cmp == "!=":
			f["tag_neq"] = true
		case x.Op == "cmp":
			f["tag_eq"] = true
		}
	})
	return strings.Join(c17SortedKeys(f), "+")
}

func c17Quote(s string) string { return `"` + s + `"` }

// c17GenDelete draws a delete. "!=" is only generated for keys every series carries (t0 and the
// measurement): for a tag a series lacks, the delete predicate documentation leaves "!=" open.
func c17GenDelete(rg *vkit.Rand, w *c17World) c17Del {
	d := c17Del{Min: w.Bound(rg), Max: w.Bound(rg)}
	if d.Min > d.Max && !rg.Chance(1, 10) {
		d.Min, d.Max = d.Max, d.Min
	}
	if rg.Chance(1, 8) {
		d.Min, d.Max = -1<<63, 1<<63-1
	}
	keys := append([]string{"_measurement"}, w.Keys...)
	lit := func(k string) string {
		if k == "_measurement" {
			if rg.Chance(1, 8) {
				return "nosuch"
			}
			return vkit.Pick(rg, w.Meas)
		}
		if rg.Chance(1, 10) {
			return "zz"
		}
		return vkit.Pick(rg, w.Vals[k])
	}
	cmp := func() *c17Expr {
		k := vkit.Pick(rg, keys)
		op := "="
		if (k == "_measurement" || k == "t0") && rg.Chance(1, 3) {
			op = "!="
		}
		return c17Cmp(k, op, lit(k))
	}
	switch rg.Intn(10) {
	case 0, 1:
		d.Mode = "nil"
	case 2, 3, 4, 5:
		d.Mode = "string"
		n := rg.Range(1, 3)
		var parts []string
		if n == 1 {
			d.Expr = cmp()
			parts = append(parts, c17Quote(d.Expr.Key)+d.Expr.Cmp+c17Quote(d.Expr.Val))
		} else {
			d.Expr = &c17Expr{Op: "and"}
			for i := 0; i < n; i++ {
				c := cmp()
				d.Expr.Kids = append(d.Expr.Kids, c)
				parts = append(parts, c17Quote(c.Key)+c.Cmp+c17Quote(c.Val))
			}
		}
		d.Str = strings.Join(parts, " AND ")
	default:
		d.Mode = "proto"
		var gen func(depth int) *c17Expr
		gen = func(depth int) *c17Expr {
			if depth == 0 || rg.Chance(1, 3) {
				return c17Cmp2(cmp())
			}
			op := "and"
			if rg.Chance(3, 5) {
				op = "or"
			}
			return &c17Expr{Op: op, Kids: []*c17Expr{gen(depth - 1), gen(depth - 1)}}
		}
		d.Expr = gen(2)
	}
	d.Shape = c17Shape(d.Expr)
	return d
}

func c17Cmp2(e *c17Expr) *c17Expr { return e }

// Build turns the specification into what the HTTP delete handler hands to the engine: the
// predicate object and, on the user path, the conjunction of "_measurement" terms that
// decodeDeleteRequest (http/delete_handler.go) extracts from the predicate text.
func (d c17Del) Build() (influxdb.Predicate, influxql.Expr, error) {
	switch d.Mode {
	case "nil":
		return nil, nil, nil
	case "string":
		n, err := predicate.Parse(d.Str)
		if err != nil {
			return nil, nil, fmt.Errorf("predicate.Parse(%q): %w", d.Str, err)
		}
		p, err := predicate.New(n)
		if err != nil {
			return nil, nil, fmt.Errorf("predicate.New(%q): %w", d.Str, err)
		}
		expr, err := influxql.ParseExpr(d.Str)
		if err != nil {
			return nil, nil, fmt.Errorf("influxql.ParseExpr(%q): %w", d.Str, err)
		}
		me, _, err := influxql.PartitionExpr(influxql.CloneExpr(expr), func(e influxql.Expr) (bool, error) {
			if be, ok := e.(*influxql.BinaryExpr); ok {
				switch be.Op {
				case influxql.EQ, influxql.NEQ, influxql.EQREGEX, influxql.NEQREGEX:
					if tag, ok := be.LHS.(*influxql.VarRef); ok && tag.Val == "_measurement" {
						return true, nil
					}
				}
			}
			return false, nil
		})
		return p, me, err
	default:
		p, err := tsm1.NewProtobufPredicate(&datatypes.Predicate{Root: d.Expr.Node(models.MeasurementTagKey)})
		return p, nil, err
	}
}

// Apply performs the delete on the reference model; returns how many cells it removed.
func (d c17Del) Apply(w *c17World, m *sk.Model) int { return d.ApplyHit(w, m, nil) }

// ApplyHit additionally tells hit which (series, shard group) lost at least one cell.
func (d c17Del) ApplyHit(w *c17World, m *sk.Model, hit func(series string, group int)) int {
	n := 0
	for skey, fs := range m.S {
		s := w.ByKey[skey]
		if d.Expr != nil && !d.Expr.Eval(s.Meas, s.Tags, "") {
			continue
		}
		gs := map[int]bool{}
		for _, f := range fs {
			for t := range f.P {
				if t >= d.Min && t <= d.Max {
					n++
					gs[int((t-c17Base)/c17Hour)] = true
				}
			}
		}
		if hit != nil {
			for g := range gs {
				hit(skey, g)
			}
		}
		m.Delete(skey, d.Min, d.Max)
	}
	return n
}

// ---- oracle ------------------------------------------------------------------------------------

type c17Cell struct {
	Series, Field string
	T             int64
}

type c17Ctx struct {
	r    *vkit.Run
	env  *c17Env
	w    *c17World
	m    *sk.Model
	hist []string
	last string            // kind of the op the check follows
	feat map[string]string // features of that op
	skip map[c17Cell]bool  // cells whose presence is legitimately either (concurrent conflicting write)
	bad  bool
	once map[string]bool
	dels map[string]int // (series, group) -> number of deletes that removed cells of it there
}

type c17Wit struct {
	Case    string   `json:"case"`
	History []string `json:"history"`
	What    string   `json:"what"`
	Detail  any      `json:"detail,omitempty"`
}

// violate reports a witness. Causes that are established findings of the unchanged tree and do
// not make the model diverge from the engine ("soft") are reported once per case and do not end
// the history, so that the rest of it is still checked.
func (c *c17Ctx) violate(class string, feats map[string]string, what string, detail any, caseID string) {
	if oc := os.Getenv("C17_CLASS"); oc != "" && !strings.Contains(oc, class) { // debugging aid
		return
	}
	if oc := os.Getenv("C17_MATCH"); oc != "" { // debugging aid: regexp over "class cause trigger via"
		if ok, _ := regexp.MatchString(oc, class+" "+feats["cause"]+" "+feats["trigger"]+" "+feats["via"]); !ok {
			if !(class == "listed_without_data" && feats["cause"] != "" && !strings.Contains(feats["cause"], "unknown") && !strings.Contains(feats["cause"], "one_delete")) {
				c.bad = true
			}
			return
		}
	}
	soft := class == "listed_without_data" && feats["cause"] != "" && !strings.Contains(feats["cause"], "unknown") && !strings.Contains(feats["cause"], "one_delete")
	if soft {
		k := class + feats["cause"]
		if c.once == nil {
			c.once = map[string]bool{}
		}
		if c.once[k] {
			return
		}
		c.once[k] = true
	} else {
		c.bad = true
	}
	c.r.Event("violations_"+class+"_"+feats["api"]+feats["cause"]+feats["via"]+feats["site"]+feats["trigger"]+c.feat["parked_at"], 1)
	f := map[string]string{"after": c.last}
	for k, v := range c.feat {
		f[k] = v
	}
	for k, v := range feats {
		f[k] = v
	}
	h := c.hist
	if len(h) > 60 {
		h = h[len(h)-60:]
	}
	c.r.Violation(class, f, c17Wit{Case: caseID, History: h, What: what, Detail: detail})
}

func (c *c17Ctx) hit(series string, g int) { c.dels[fmt.Sprintf("%s\x00%d", series, g)]++ }

func (c *c17Ctx) filterSkip(series, field string, pts []sk.Pt) []sk.Pt {
	if len(c.skip) == 0 {
		return pts
	}
	out := pts[:0:0]
	for _, p := range pts {
		if !c.skip[c17Cell{series, field, p.T}] {
			out = append(out, p)
		}
	}
	return out
}

// directRead reads (series, field) through the shards' own cursor iterators, bypassing the
// index: it tells "data gone" from "data there but series not listed".
func (c *c17Ctx) directRead(s c17Series, field string, groups []c17Group) []sk.Pt {
	var out []sk.Pt
	ctx := context.Background()
	for _, g := range groups {
		sh := c.env.TS.Shard(g.ShardID)
		if sh == nil {
			continue
		}
		ci, err := sh.CreateCursorIterator(ctx)
		if err != nil || ci == nil {
			continue
		}
		cur, err := ci.Next(ctx, &cursors.CursorRequest{Name: []byte(s.Meas), Tags: models.NewTags(s.Tags), Field: field, Ascending: true, StartTime: models.MinNanoTime, EndTime: models.MaxNanoTime})
		if err != nil || cur == nil {
			continue
		}
		pts, _ := sk.DrainCursor(cur)
		cur.Close()
		out = append(out, pts...)
	}
	return out
}

// tsmHasSeries reports whether a TSM file of one of the shards still carries an index key of the
// series (observation used to name the cause of a stale listing).
func (c *c17Ctx) tsmHasSeries(seriesKey string, groups []c17Group) bool {
	for _, g := range groups {
		sh := c.env.TS.Shard(g.ShardID)
		if sh == nil {
			continue
		}
		eng, err := sh.Engine()
		if err != nil {
			continue
		}
		for _, f := range eng.(*tsm1.Engine).FileStore.Files() {
			n := f.KeyCount()
			for i := f.Seek([]byte(seriesKey)); i < n; i++ {
				k, _ := f.KeyAt(i)
				sk, _ := tsm1.SeriesAndFieldFromCompositeKey(k)
				if string(sk) == seriesKey {
					return true
				}
				if string(sk) > seriesKey {
					break
				}
			}
		}
	}
	return false
}

// undeletedTrigger names the observable trigger of a delete that left covered points behind.
func (c *c17Ctx) undeletedTrigger(skey string) string {
	if os.Getenv("C17_DUMP") != "" {
		c.dump(skey)
	}
	for other := range c.w.ByKey {
		// composite TSM keys are series key + "#!~#" + field: when one series key is the other plus
		// a byte below '#', series keys and composite keys sort differently
		if len(other) > len(skey) && strings.HasPrefix(other, skey) && other[len(skey)] < '#' {
			return "sibling_series_key_sorts_before_field_separator"
		}
		if len(skey) > len(other) && strings.HasPrefix(skey, other) && skey[len(other)] < '#' {
			return "sibling_series_key_sorts_before_field_separator"
		}
	}
	// (asked after the sibling test: that defect is tied to this very series key, whatever the
	// predicate; a delete that skips measurements shows on series without siblings as well)
	if c.feat["mode"] == "string" && strings.Contains(c.feat["shape"], "meas_neq") {
		return "user_path_measurement_neq"
	}
	return "unknown"
}

// dump prints where the series' data sits (debugging aid).
func (c *c17Ctx) dump(skey string) {
	for _, g := range c.env.Groups() {
		sh := c.env.TS.Shard(g.ShardID)
		eng, err := sh.Engine()
		if err != nil {
			continue
		}
		e := eng.(*tsm1.Engine)
		for _, f := range e.FileStore.Files() {
			mn, mx := f.KeyRange()
			fmt.Printf("DUMP shard %d file %s keyrange [%q .. %q] tombstones=%v\n", g.ShardID, f.Path()[len(f.Path())-22:], mn, mx, f.HasTombstones())
			for i := 0; i < f.KeyCount(); i++ {
				k, _ := f.KeyAt(i)
				if strings.HasPrefix(string(k), skey+"#") {
					fmt.Printf("DUMP    key %q tombstones %v\n", k, f.TombstoneRange(k))
				}
			}
		}
		for _, k := range e.Cache.Keys() {
			if strings.HasPrefix(string(k), skey+"#") {
				fmt.Printf("DUMP shard %d cache key %q n=%d\n", g.ShardID, k, e.Cache.Values(k).Len())
			}
		}
	}
}

// checkPoints compares what a filter read over [lo,hi) returns with the model.
func (c *c17Ctx) checkPoints(caseID, scope string, lo, hi int64, groups []c17Group) {
	r, m := c.r, c.m
	rows, err := c.env.ReadFilter(lo, hi, nil)
	if err != nil {
		c.violate("read_error", nil, err.Error(), nil, caseID)
		return
	}
	mlo, mhi := lo, hi-1
	if lo < sk.MinT {
		mlo = sk.MinT
	}
	if hi > sk.MaxT {
		mhi = sk.MaxT
	}
	got := map[[2]string][]sk.Pt{}
	for _, row := range rows {
		k := [2]string{row.Series, row.Field}
		if len(row.Pts) > 0 && len(got[k]) > 0 {
			c.violate("series_returned_twice", map[string]string{"scope": scope}, fmt.Sprintf("%s field %q", row.Series, row.Field), nil, caseID)
		}
		got[k] = append(got[k], row.Pts...)
	}
	for _, skey := range m.SeriesKeys() {
		for _, f := range m.Fields(skey) {
			want := c.filterSkip(skey, f, m.Read(skey, f, mlo, mhi, true))
			have := c.filterSkip(skey, f, got[[2]string{skey, f}])
			delete(got, [2]string{skey, f})
			r.Event("series_field_reads_"+scope, 1)
			d := sk.Diff(want, have)
			if d == "" {
				continue
			}
			wantT, haveT := map[int64]bool{}, map[int64]bool{}
			for _, p := range want {
				wantT[p.T] = true
			}
			for _, p := range have {
				haveT[p.T] = true
			}
			lost, extra := 0, 0
			for t := range wantT {
				if !haveT[t] {
					lost++
				}
			}
			for t := range haveT {
				if !wantT[t] {
					extra++
				}
			}
			switch {
			case extra > 0:
				c.violate("matching_points_not_deleted", map[string]string{"scope": scope, "trigger": c.undeletedTrigger(skey)}, fmt.Sprintf("%s field %q: %d point(s) the delete covers are still readable", skey, f, extra), d, caseID)
			case lost > 0:
				via := "data_gone"
				trig := c.undeletedTrigger(skey)
				if trig == "user_path_measurement_neq" {
					trig = "unknown"
				}
				var dp []sk.Pt
				for _, p := range c.filterSkip(skey, f, c.directRead(c.w.ByKey[skey], f, groups)) {
					if p.T >= mlo && p.T <= mhi {
						dp = append(dp, p)
					}
				}
				if sk.Diff(want, dp) == "" {
					via = "data_present_series_not_indexed"
				}
				c.violate("other_points_unreadable", map[string]string{"via": via, "scope": scope, "trigger": trig}, fmt.Sprintf("%s field %q: %d point(s) no delete covers are not readable (%s)", skey, f, lost, via), d, caseID)
			default:
				c.violate("wrong_value_read", map[string]string{"scope": scope}, fmt.Sprintf("%s field %q", skey, f), d, caseID)
			}
			return
		}
	}
	for k, pts := range got {
		if pts = c.filterSkip(k[0], k[1], pts); len(pts) > 0 {
			c.violate("matching_points_not_deleted", map[string]string{"scope": scope, "series": "emptied_or_unknown"}, fmt.Sprintf("%s field %q returns %s but the model holds nothing", k[0], k[1], sk.FmtPts(pts)), nil, caseID)
			return
		}
	}
}

type c17Listing struct {
	Meas, Keys, Vals, Series []string
}

func (c *c17Ctx) list(auth query.Authorizer, ids []uint64, withMeas bool, keyExpr *c17Expr) (l c17Listing, api string, err error) {
	ctx := context.Background()
	if withMeas {
		names, err := c.env.TS.MeasurementNames(ctx, auth, c.env.DB, nil)
		if err != nil {
			return l, "MeasurementNames", err
		}
		for _, n := range names {
			l.Meas = append(l.Meas, string(n))
		}
	}
	tks, err := c.env.TS.TagKeys(ctx, auth, ids, nil)
	if err != nil {
		return l, "TagKeys", err
	}
	for _, tk := range tks {
		for _, k := range tk.Keys {
			l.Keys = append(l.Keys, tk.Measurement+"\x00"+k)
		}
	}
	tvs, err := c.env.TS.TagValues(ctx, auth, ids, keyExpr.Influx())
	if err != nil {
		return l, "TagValues", err
	}
	for _, tv := range tvs {
		for _, kv := range tv.Values {
			l.Vals = append(l.Vals, tv.Measurement+"\x00"+kv.Key+"\x00"+kv.Value)
		}
	}
	l.Series, err = c.env.SeriesKeys(auth, ids, nil)
	return l, "Series", err
}

// check compares everything readable and everything listed with the model.
func (c *c17Ctx) check(caseID string) {
	r, env, m := c.r, c.env, c.m
	groups := env.Groups()
	// 1. points through the bucket's read path: whole bucket, and each shard group's window alone
	c.checkPoints(caseID, "bucket", -1<<63, 1<<63-1, groups)
	if len(groups) > 1 {
		for _, g := range groups {
			if c.bad {
				return
			}
			// [Start, End-1): a window ending at End would also select the next shard group
			c.checkPoints(caseID, "single_shard", g.Start, g.End-1, []c17Group{g})
		}
	}
	if c.bad {
		return
	}
	// 2. metadata: listed iff at least one remaining point (whole bucket, and each shard alone)
	scopes := [][]c17Group{groups}
	if len(groups) > 1 {
		for _, g := range groups {
			scopes = append(scopes, []c17Group{g})
		}
	}
	var keyExpr *c17Expr
	if len(c.w.Keys) == 1 {
		keyExpr = c17Cmp("_tagKey", "=", c.w.Keys[0])
	} else {
		keyExpr = &c17Expr{Op: "or"}
		for _, k := range c.w.Keys {
			keyExpr.Kids = append(keyExpr.Kids, c17Cmp("_tagKey", "=", k))
		}
	}
	undecided := func(series string) bool {
		for cell := range c.skip {
			if cell.Series == series {
				return true
			}
		}
		return false
	}
	names := func(set map[string]bool) (meas, keys, vals map[string]bool) {
		meas, keys, vals = map[string]bool{}, map[string]bool{}, map[string]bool{}
		for skey := range set {
			s := c.w.ByKey[skey]
			meas[s.Meas] = true
			for k, v := range s.Tags {
				keys[s.Meas+"\x00"+k] = true
				vals[s.Meas+"\x00"+k+"\x00"+v] = true
			}
		}
		return
	}
	for si, sc := range scopes {
		scope := "bucket"
		if si > 0 {
			scope = "single_shard"
		}
		live := c17Live(m, sc)
		maySer := map[string]bool{}
		for skey := range m.S {
			if undecided(skey) { // liveness hinges on an either-cell: not judged
				delete(live, skey)
				maySer[skey] = true
			}
		}
		wantMeas, wantKeys, wantVals := names(live)
		mayMeas, mayKeys, mayVals := names(maySer)
		ids := env.ShardIDs(sc)
		// the open authorizer takes index-only short cuts; an authorizer that allows every series
		// takes the per-series paths. Both must list exactly the live names.
		for _, au := range []struct {
			name string
			a    query.Authorizer
		}{{"open", nil}, {"allow_all", c17AllowAll{}}} {
			l, api, err := c.list(au.a, ids, si == 0, keyExpr)
			if err != nil {
				c.violate("metadata_error", map[string]string{"api": api, "auth": au.name}, err.Error(), nil, caseID)
				return
			}
			// series listed although empty, with the observable cause
			staleCause := map[string]string{}
			_, extraSer := c17SetDiff(c17SortedKeys(live), l.Series)
			for _, skey := range extraSer {
				if maySer[skey] {
					continue
				}
				// observable trigger: how many separate deletes emptied the series in a shard of the scope
				// (a TSM index key survives when its points went in several non-adjacent tombstone ranges)
				nd := 0
				for _, g := range sc {
					if k := c.dels[fmt.Sprintf("%s\x00%d", skey, int((g.Start-c17Base)/c17Hour))]; k > nd {
						nd = k
					}
				}
				prefix := false
				for other := range live {
					if len(other) > len(skey) && strings.HasPrefix(other, skey) {
						prefix = true // e.g. "m,t0=a" vs "m,t0=a,t1=x", "m,t0=ab", "m,t0=a\\,b"
					}
				}
				switch {
				case nd >= 2:
					staleCause[skey] = "series_emptied_by_several_deletes"
				case prefix:
					staleCause[skey] = "series_key_is_prefix_of_a_live_series_key"
				case nd == 1:
					staleCause[skey] = "series_emptied_by_one_delete"
				default:
					staleCause[skey] = "unknown"
				}
				if c.tsmHasSeries(skey, sc) {
					r.Event("stale_series_tsm_key_still_present", 1)
				}
			}
			staleMeas, staleKeys, staleVals := map[string]string{}, map[string]string{}, map[string]string{}
			for skey, cause := range staleCause {
				s := c.w.ByKey[skey]
				staleMeas[s.Meas] = cause
				for k, v := range s.Tags {
					staleKeys[s.Meas+"\x00"+k] = cause
					staleVals[s.Meas+"\x00"+k+"\x00"+v] = cause
				}
			}
			cmp := func(api string, want, may map[string]bool, stale map[string]string, got []string) {
				r.Event("metadata_compared_"+api, 1)
				missing, extra := c17SetDiff(c17SortedKeys(want), got)
				byCause := map[string][]string{}
				for _, x := range extra {
					if may[x] {
						continue
					}
					cause := "unknown"
					if sc, ok := stale[x]; ok {
						cause = sc
						if api != "Series" {
							cause = "series_listed_without_data:" + sc
						}
					} else if au.name == "open" && (api == "TagKeys" || api == "TagValues") {
						// no listed series carries the name: it comes from the index-only path
						cause = "open_authorizer_lists_index_entry_without_series"
					} else if api == "TagKeys" || api == "TagValues" {
						// per-series path: is a dropped series still reachable through a tag-value lookup?
						parts := strings.Split(x, "\x00")
						vals := c.w.Vals[parts[1]]
						if len(parts) == 3 {
							vals = []string{parts[2]}
						}
						for _, v := range vals {
							ss, _ := env.SeriesKeys(au.a, ids, c17Cmp(parts[1], "=", v).Influx())
							for _, skey := range ss {
								if !live[skey] && !maySer[skey] && c.w.ByKey[skey].Meas == parts[0] {
									cause = "dropped_series_still_reachable_by_tag_value"
								}
							}
						}
					}
					byCause[cause] = append(byCause[cause], x)
				}
				for cause, ex := range byCause {
					c.violate("listed_without_data", map[string]string{"api": api, "scope": scope, "auth": au.name, "cause": cause},
						fmt.Sprintf("%s lists %q although no point of it remains", api, ex), map[string]any{"listed": got, "live": c17SortedKeys(want), "shards": ids}, caseID)
				}
				if len(missing) > 0 {
					c.violate("not_listed_with_data", map[string]string{"api": api, "scope": scope, "auth": au.name},
						fmt.Sprintf("%s omits %q although points remain", api, missing), map[string]any{"listed": got, "live": c17SortedKeys(want), "shards": ids}, caseID)
				}
			}
			cmp("Series", live, maySer, staleCause, l.Series)
			if si == 0 {
				cmp("MeasurementNames", wantMeas, mayMeas, staleMeas, l.Meas)
			}
			cmp("TagKeys", wantKeys, mayKeys, staleKeys, l.Keys)
			cmp("TagValues", wantVals, mayVals, staleVals, l.Vals)
			if c.bad {
				return
			}
		}
	}
}

// ---- sequential histories ----------------------------------------------------------------------

func c17History(r *vkit.Run, t *testing.T, i int) {
	rg := r.Rand(i)
	caseID := fmt.Sprintf("hist#%d", i)
	env, err := c17Open(t.TempDir())
	if err != nil {
		r.Inconclusive("engine_open_failed")
		t.Logf("open: %v", err)
		return
	}
	defer env.Close()
	var ctr int64
	w := c17NewWorld(rg, vkit.Pick(rg, []int{2, 2, 3, 3, 4}), 8, &ctr)
	c := &c17Ctx{r: r, env: env, w: w, m: sk.NewModel(), dels: map[string]int{}}
	nOps := rg.Range(8, 18)
	effective, partial, writesAfterDelete := 0, 0, 0
	seenDelete := false
	for op := 0; op < nOps && !c.bad; op++ {
		x := rg.Intn(20)
		switch {
		case op < 2 || x < 11: // write
			pts, recs := w.Batch(rg, rg.Range(1, 14), c.m)
			c.hist = append(c.hist, fmt.Sprintf("write %v", recs))
			if err := env.Write(pts); err != nil {
				if err.Error() == "timeout" {
					r.Inconclusive("write_timeout_under_load")
					return
				}
				c.last = "write"
				c.violate("write_error", nil, err.Error(), nil, caseID)
				return
			}
			r.Event("writes", 1)
			if seenDelete {
				writesAfterDelete++
			}
		case x < 16: // delete
			d := c17GenDelete(rg, w)
			pred, me, err := d.Build()
			if err != nil {
				r.Event("delete_predicate_rejected", 1)
				c.hist = append(c.hist, d.String()+" -> rejected: "+err.Error())
				continue
			}
			before := 0
			for _, fs := range c.m.S {
				for _, f := range fs {
					before += len(f.P)
				}
			}
			n := d.ApplyHit(w, c.m, c.hit)
			mes := "<nil>"
			if me != nil {
				mes = me.String()
			}
			c.hist = append(c.hist, fmt.Sprintf("%s text=%q measurementExpr=%s (model removes %d of %d cells)", d.String(), d.Str, mes, n, before))
			c.last, c.feat = "delete", map[string]string{"mode": d.Mode, "shape": d.Shape}
			if err := env.Delete(d.Min, d.Max, pred, me); err != nil {
				c.violate("delete_error", nil, err.Error(), nil, caseID)
				return
			}
			seenDelete = true
			r.Event("deletes", 1)
			r.Event("deletes_mode_"+d.Mode, 1)
			if n > 0 {
				effective++
				r.Event("deletes_removing_points", 1)
				if n < before {
					partial++
				}
			}
			c.check(caseID)
		case x < 19: // snapshot some shards: data moves from cache to TSM files
			gs := env.Groups()
			var ids []uint64
			for _, g := range gs {
				if rg.Chance(2, 3) {
					ids = append(ids, g.ShardID)
					if err := env.Snapshot(g.ShardID); err != nil {
						// a failed WriteSnapshot leaves the cache snapshot in flight (C03's subject): stop here
						r.Inconclusive("snapshot_refused")
						return
					}
				}
			}
			c.hist = append(c.hist, fmt.Sprintf("snapshot shards %v", ids))
			r.Event("snapshots", int64(len(ids)))
		default: // restart
			c.hist = append(c.hist, "restart")
			if err := env.Restart(); err != nil {
				r.Inconclusive("restart_failed")
				t.Logf("restart: %v", err)
				return
			}
			r.Event("restarts", 1)
			c.last, c.feat = "restart", nil
			c.check(caseID)
		}
	}
	if !c.bad {
		c.last, c.feat = "end", nil
		c.check(caseID)
	}
	r.Case(strings.Join(c.hist, "\n"), effective > 0 && partial > 0 && len(env.Groups()) >= 2)
	if r.WantSample() && effective > 1 && i%7 == 0 {
		h := c.hist
		if len(h) > 12 {
			h = h[:12]
		}
		r.Sample(map[string]any{"kind": "history", "case": i, "groups": len(env.Groups()), "series": len(w.Series), "ops": len(c.hist), "effective_deletes": effective, "first_ops": h})
	}
	_ = writesAfterDelete
}

// ---- schedule-controlled cases: a delete parked inside deleteSeriesRange -------------------------

var c17Hooks = []string{"tsm1.delete.afterTombstones", "tsm1.delete.afterCache", "tsm1.delete.afterWAL", "tsm1.delete.beforeIndexDrop"}

// c17GuardWaiters counts goroutines currently inside tsdb.(*guard).Wait.
func c17GuardWaiters() int {
	buf := make([]byte, 1<<20)
	for {
		n := runtime.Stack(buf, true)
		if n < len(buf) {
			buf = buf[:n]
			break
		}
		buf = make([]byte, 2*len(buf))
	}
	n := 0
	for _, g := range strings.Split(string(buf), "\n\n") {
		if strings.Contains(g, "tsdb.(*guard).Wait") {
			n++
		}
	}
	return n
}

// c17NonConflictingWrite exists to give the writer goroutine a recognisable frame.
func c17NonConflictingWrite(env *c17Env, pts []models.Point) error { return env.Write(pts) }

// c17WriterBlocked reports whether the non-conflicting writer sits in a wait state while no
// goroutine is executing subject code (the parked delete is in a channel receive of the harness).
func c17WriterBlocked() (bool, string) {
	buf := make([]byte, 4<<20)
	n := runtime.Stack(buf, true)
	var target string
	busy := false
	for _, g := range strings.Split(string(buf[:n]), "\n\n") {
		nl := strings.IndexByte(g, '\n')
		if nl < 0 {
			continue
		}
		h := g[:nl]
		if strings.Contains(g, "c17NonConflictingWrite") {
			target = g
			continue
		}
		if (strings.Contains(h, "[running") || strings.Contains(h, "[runnable") || strings.Contains(h, "[syscall") || strings.Contains(h, "[IO wait")) &&
			strings.Contains(g, "influxdata/influxdb/v2/") && !strings.Contains(g, "c17WriterBlocked") {
			busy = true
		}
	}
	if target == "" || busy {
		return false, ""
	}
	h := target[:strings.IndexByte(target, '\n')]
	for _, st := range []string{"sync.RWMutex.Lock", "sync.RWMutex.RLock", "sync.Mutex.Lock", "semacquire", "sync.Cond.Wait", "sync.WaitGroup.Wait", "chan receive", "chan send", "select"} {
		if strings.Contains(h, "["+st) {
			site := ""
			for _, ln := range strings.Split(target, "\n") {
				if strings.HasPrefix(ln, "github.com/influxdata/influxdb/v2/") {
					site = strings.TrimPrefix(ln, "github.com/influxdata/influxdb/v2/")
					if i := strings.LastIndexByte(site, '('); i > 0 {
						site = site[:i]
					}
					break
				}
			}
			if strings.Contains(site, "(*guard).Wait") {
				return false, "" // the guard case is judged separately
			}
			return true, st + " in " + site
		}
	}
	return false, ""
}

func c17Schedule(r *vkit.Run, t *testing.T, i int) {
	rg := r.SubRand("sched", i)
	caseID := fmt.Sprintf("sched#%d", i)
	env, err := c17Open(t.TempDir())
	if err != nil {
		r.Inconclusive("engine_open_failed")
		return
	}
	defer env.Close()
	var ctr int64
	nG := 2
	if rg.Chance(1, 4) {
		nG = 3
	}
	w := c17NewWorld(rg, nG, 6, &ctr)
	c := &c17Ctx{r: r, env: env, w: w, m: sk.NewModel(), skip: map[c17Cell]bool{}, dels: map[string]int{}}
	g := rg.Intn(nG)
	gStart := c17Base + int64(g)*c17Hour
	// the delete range lies strictly inside group g: offsets 1..1800e9 (+-)
	d := c17Del{Min: gStart + 1, Max: gStart + 1800e9, Mode: "nil"}
	if rg.Bool() {
		d.Max = gStart + 2
	}
	if rg.Chance(1, 2) {
		d.Mode = "proto"
		d.Expr = c17Cmp("t0", "=", vkit.Pick(rg, w.Vals["t0"]))
	}
	d.Shape = c17Shape(d.Expr)
	inside := []int64{gStart + 1, gStart + 2}
	if d.Max > gStart+2 {
		inside = append(inside, gStart+1800e9)
	}
	var outside []int64
	for _, tm := range w.Times {
		if tm < d.Min || tm > d.Max {
			outside = append(outside, tm)
		}
	}
	// seed: some series only inside the range within group g (the delete empties them there), others anywhere
	var seed []models.Point
	var recs []c17PointRec
	for si, s := range w.Series {
		onlyInside := si%2 == 0
		for k := 0; k < rg.Range(2, 5); k++ {
			tm := vkit.Pick(rg, inside)
			if !onlyInside && rg.Bool() {
				tm = vkit.Pick(rg, w.Times)
			}
			p, rec := w.Point(rg, s, tm, true, c.m)
			seed = append(seed, p)
			recs = append(recs, rec)
		}
	}
	c.hist = append(c.hist, fmt.Sprintf("seed %v", recs))
	if err := env.Write(seed); err != nil {
		c.last = "write"
		c.violate("write_error", nil, err.Error(), nil, caseID)
		return
	}
	snap := rg.Intn(3) // 0: all in cache, 1: all in TSM, 2: TSM + more cache data
	if snap > 0 {
		for _, gr := range env.Groups() {
			if err := env.Snapshot(gr.ShardID); err != nil {
				r.Inconclusive("snapshot_failed")
				return
			}
		}
		c.hist = append(c.hist, "snapshot all shards")
		if snap == 2 {
			pts, recs := w.Batch(rg, 6, c.m)
			c.hist = append(c.hist, fmt.Sprintf("write %v", recs))
			if err := env.Write(pts); err != nil {
				c.last = "write"
				c.violate("write_error", nil, err.Error(), nil, caseID)
				return
			}
		}
	}
	pred, me, err := d.Build()
	if err != nil {
		r.Inconclusive("predicate_build_failed")
		return
	}
	hook := c17Hooks[i%len(c17Hooks)]
	reached, release := make(chan struct{}), make(chan struct{})
	var once atomic.Bool
	restore := verifhook.Set(hook, func(string, interface{}) {
		if once.CompareAndSwap(false, true) {
			close(reached)
			<-release
		}
	})
	released := false
	rel := func() {
		if !released {
			released = true
			close(release)
		}
	}
	defer func() { rel(); restore() }()
	c.hist = append(c.hist, fmt.Sprintf("%s started, to be parked at %s", d.String(), hook))
	c.last, c.feat = "delete", map[string]string{"mode": d.Mode, "shape": d.Shape, "parked_at": hook}
	delDone := make(chan error, 1)
	go func() { delDone <- env.Delete(d.Min, d.Max, pred, me) }()
	parked := false
	select {
	case <-reached:
		parked = true
	case err := <-delDone:
		// nothing to delete in any shard: the hook is never reached; still a valid sequential case
		if err != nil {
			c.violate("delete_error", nil, err.Error(), nil, caseID)
			return
		}
		delDone <- nil
	case <-time.After(60 * time.Second):
		r.Inconclusive("delete_neither_parked_nor_finished")
		return
	}
	removed := d.ApplyHit(w, c.m, c.hit)
	// non-conflicting write: every series gets a point outside [min,max] in every group (so whichever
	// shard the delete is parked in is written to, and to the very series being deleted)
	var free []models.Point
	recs = nil
	for _, s := range w.Series {
		for gg := 0; gg < nG; gg++ {
			var cand []int64
			for _, tm := range outside {
				if tm >= c17Base+int64(gg)*c17Hour && tm < c17Base+int64(gg+1)*c17Hour {
					cand = append(cand, tm)
				}
			}
			p, rec := w.Point(rg, s, vkit.Pick(rg, cand), false, c.m)
			free = append(free, p)
			recs = append(recs, rec)
		}
	}
	// ... and, when the delete's range ends before it, a point in a shard group that does not exist
	// yet: creating the shard takes the store's write lock, which a running delete must not hold up
	if newStart := c17Base + int64(nG)*c17Hour; d.Max < newStart && len(w.Series) > 0 {
		p, rec := w.Point(rg, w.Series[rg.Intn(len(w.Series))], newStart+int64(rg.Intn(1000))*1000000, false, c.m)
		free = append(free, p)
		recs = append(recs, rec)
		r.Event("nonconflicting_write_creates_new_shard_group", 1)
	}
	c.hist = append(c.hist, fmt.Sprintf("non-conflicting write while delete parked %v", recs))
	wDone := make(chan error, 1)
	go func() { wDone <- c17NonConflictingWrite(env, free) }()
	if parked {
		r.Event("schedules_parked_"+hook[len("tsm1.delete."):], 1)
		verdict := ""
		stuck, otherStuck := 0, 0
		deadline := time.Now().Add(60 * time.Second)
	wait:
		for {
			select {
			case err := <-wDone:
				wDone <- err
				verdict = "returned"
				break wait
			case <-time.After(20 * time.Millisecond):
			}
			if c17GuardWaiters() > 0 {
				stuck++
				if stuck >= 5 {
					verdict = "blocked_in_guard"
					break wait
				}
			} else {
				stuck = 0
			}
			// any other wait of the writer while the process is otherwise quiescent (only the
			// parked delete can release it): e.g. the store's write lock in CreateShard
			if ok, site := c17WriterBlocked(); ok {
				otherStuck++
				if otherStuck >= 8 {
					verdict = "blocked_elsewhere:" + site
					break wait
				}
			} else {
				otherStuck = 0
			}
			if time.Now().After(deadline) {
				verdict = "unclear"
				break wait
			}
		}
		switch verdict {
		case "returned":
			r.Event("nonconflicting_write_returned_while_delete_parked", 1)
		case "blocked_in_guard":
			// logical, not timing: the guard is only released by the delete, which is parked
			c.violate("nonconflicting_write_blocked", map[string]string{"site": "tsdb.(*guard).Wait"},
				"a write with no point inside the delete's time range waits in tsdb.(*guard).Wait while the delete is parked", nil, caseID)
		default:
			if strings.HasPrefix(verdict, "blocked_elsewhere:") {
				site := strings.TrimPrefix(verdict, "blocked_elsewhere:")
				c.violate("nonconflicting_write_blocked", map[string]string{"site": site},
					"a write with no point inside the delete's time range waits ("+site+") while the delete is parked and nothing else is running", nil, caseID)
			} else {
				r.Inconclusive("nonconflicting_write_neither_returned_nor_in_guard")
			}
		}
	}
	// conflicting write (inside the range): expected to wait; asserted neither way, its cells are "either"
	var cDone chan error
	if parked && rg.Bool() {
		var pts []models.Point
		recs = nil
		for k := 0; k < 3; k++ {
			s := vkit.Pick(rg, w.Series)
			tm := vkit.Pick(rg, inside)
			p, rec := w.Point(rg, s, tm, false, nil)
			pts = append(pts, p)
			recs = append(recs, rec)
			for f := range rec.Fields {
				c.skip[c17Cell{s.Key, f, tm}] = true
			}
		}
		c.hist = append(c.hist, fmt.Sprintf("conflicting write while delete parked (cells either) %v", recs))
		cDone = make(chan error, 1)
		go func() { cDone <- env.Write(pts) }()
		// let it reach its wait (or finish); not a verdict, only interleaving
		for k := 0; k < 50; k++ {
			if c17GuardWaiters() > 0 || len(cDone) > 0 {
				break
			}
			time.Sleep(2 * time.Millisecond)
		}
		if c17GuardWaiters() > 0 {
			r.Event("conflicting_write_waited_in_guard", 1)
		}
	}
	rel()
	c.hist = append(c.hist, "delete released")
	for _, ch := range []chan error{delDone, wDone, cDone} {
		if ch == nil {
			continue
		}
		select {
		case err := <-ch:
			if err != nil {
				c.violate("operation_error", nil, err.Error(), nil, caseID)
				return
			}
		case <-time.After(120 * time.Second):
			r.Inconclusive("operation_did_not_finish_after_release")
			return
		}
	}
	if !c.bad {
		c.check(caseID)
	}
	r.Case(strings.Join(c.hist, "\n"), parked && removed > 0)
	if r.WantSample() && parked && i%5 == 1 {
		r.Sample(map[string]any{"kind": "schedule", "case": i, "parked_at": hook, "delete": d.String(), "data": []string{"cache", "tsm", "tsm+cache"}[snap], "nonconflicting_points": len(free), "conflicting_write": cDone != nil})
	}
}

// ---- free-running stress: non-conflicting writers against concurrent deletes ----------------------

func c17Stress(r *vkit.Run, t *testing.T, i int) {
	rg := r.SubRand("stress", i)
	caseID := fmt.Sprintf("stress#%d", i)
	env, err := c17Open(t.TempDir())
	if err != nil {
		r.Inconclusive("engine_open_failed")
		return
	}
	defer env.Close()
	var ctr int64
	nG := 2
	w := c17NewWorld(rg, nG, 6, &ctr)
	c := &c17Ctx{r: r, env: env, w: w, m: sk.NewModel(), dels: map[string]int{}}
	// deletes only cover offsets {1,2,1800e9} of a group; concurrent writers only use the other offsets
	insideOff := []int64{1, 2, 1800e9}
	outsideOff := []int64{0, c17Hour - 2, c17Hour - 1}
	var seed []models.Point
	for _, s := range w.Series {
		for gg := 0; gg < nG; gg++ {
			for _, o := range insideOff {
				if rg.Chance(2, 3) {
					p, _ := w.Point(rg, s, c17Base+int64(gg)*c17Hour+o, true, c.m)
					seed = append(seed, p)
				}
			}
		}
	}
	if err := env.Write(seed); err != nil {
		c.last = "write"
		c.violate("write_error", nil, err.Error(), nil, caseID)
		return
	}
	if rg.Bool() {
		for _, gr := range env.Groups() {
			if env.Snapshot(gr.ShardID) != nil {
				r.Inconclusive("snapshot_refused")
				return
			}
		}
	}
	c.hist = append(c.hist, fmt.Sprintf("seed %d points at offsets %v of every group", len(seed), insideOff))
	// interleaving wideners at the delete's step boundaries
	var restores []func()
	for _, h := range c17Hooks {
		restores = append(restores, verifhook.Set(h, func(string, interface{}) {
			runtime.Gosched()
			time.Sleep(200 * time.Microsecond)
		}))
	}
	defer func() {
		for _, f := range restores {
			f()
		}
	}()
	var dels []c17Del
	for k := 0; k < rg.Range(2, 4); k++ {
		gg := rg.Intn(nG)
		d := c17Del{Min: c17Base + int64(gg)*c17Hour + 1, Max: c17Base + int64(gg)*c17Hour + 1800e9, Mode: "nil"}
		if rg.Bool() {
			d.Mode, d.Expr = "proto", c17Cmp("t0", "=", vkit.Pick(rg, w.Vals["t0"]))
		}
		d.ApplyHit(w, c.m, c.hit)
		dels = append(dels, d)
		c.hist = append(c.hist, "concurrent "+d.String())
	}
	type batch struct{ pts []models.Point }
	var writers [][]batch
	for wi := 0; wi < 2; wi++ {
		var bs []batch
		for k := 0; k < rg.Range(3, 6); k++ {
			var pts []models.Point
			for j := 0; j < rg.Range(2, 6); j++ {
				s := vkit.Pick(rg, w.Series)
				// each writer owns its offsets: no two writers ever write the same cell
				tm := c17Base + int64(rg.Intn(nG))*c17Hour + vkit.Pick(rg, [][]int64{outsideOff[:2], outsideOff[2:]}[wi])
				p, _ := w.Point(rg, s, tm, false, c.m)
				pts = append(pts, p)
			}
			bs = append(bs, batch{pts})
		}
		writers = append(writers, bs)
	}
	c.hist = append(c.hist, fmt.Sprintf("2 concurrent writers, only offsets %v (never inside a delete range)", outsideOff))
	errs := make(chan error, 8)
	n := 0
	for _, bs := range writers {
		n++
		go func(bs []batch) {
			for _, b := range bs {
				if err := env.Write(b.pts); err != nil {
					errs <- err
					return
				}
				runtime.Gosched()
			}
			errs <- nil
		}(bs)
	}
	n++
	go func() {
		for _, d := range dels {
			pred, me, err := d.Build()
			if err == nil {
				err = env.Delete(d.Min, d.Max, pred, me)
			}
			if err != nil {
				errs <- err
				return
			}
		}
		errs <- nil
	}()
	for k := 0; k < n; k++ {
		select {
		case err := <-errs:
			if err != nil {
				c.last = "concurrent_ops"
				c.violate("operation_error", nil, err.Error(), nil, caseID)
				return
			}
		case <-time.After(120 * time.Second):
			r.Inconclusive("stress_ops_did_not_finish")
			return
		}
	}
	r.Event("stress_runs", 1)
	c.last, c.feat = "concurrent_delete_and_nonconflicting_writes", map[string]string{"mode": "free_running"}
	c.check(caseID)
	r.Case(strings.Join(c.hist, "\n")+fmt.Sprint(ctr), true)
}

func TestC17(t *testing.T) {
	r := vkit.Start(t, "C17", "exploration")
	defer r.Finish()
	r.Rule("three kinds of cases against a real storage.Engine (meta client on in-memory KV, 1 h shard groups, 2-4 groups): " +
		"(a) sequential histories of writes / DeleteBucketRangePredicate / cache snapshots / restarts over a collision-heavy domain, checked after every delete, restart and at the end; " +
		"(b) schedule cases: the delete is parked at one of its four step hooks inside tsm1 deleteSeriesRange, a write with no point in [min,max] must return while it is parked; " +
		"(c) free-running non-conflicting writers against concurrent deletes with yielding hooks. " +
		"non-trivial: (a) at least one delete removed some but not all model cells and >= 2 shard groups exist, (b) the hook was reached and the delete removed cells, (c) always; distinct = hash of the full op history")
	r.Assume("a delete predicate with != is only generated for keys every series carries (absent-tag semantics of != are not documented for deletes)",
		"cells written by a write that overlaps the running delete's range are accepted present or absent",
		"the _measurement terms handed to the engine next to the predicate are derived as http/delete_handler.go decodeDeleteRequest does")
	r.Trust("verifhook points in tsdb/engine/tsm1/engine.go deleteSeriesRange")
	nHist := r.N(60, 600)
	nSched := r.N(20, 200)
	nStress := r.N(6, 40)
	phase := map[string]float64{}
	only := os.Getenv("VERIF_ONLY") // e.g. "hist:16": run one case (debugging / replay)
	sel := func(kind string, i int) bool {
		return only == "" || only == kind || only == fmt.Sprintf("%s:%d", kind, i)
	}
	t0 := time.Now()
	defer func() { r.Extra("phase_seconds", phase) }()
	// histories own their engine and set no hooks: run them on a few workers
	var wg sync.WaitGroup
	jobs := make(chan int)
	for k := 0; k < 4; k++ {
		wg.Add(1)
		go func() {
			defer wg.Done()
			for i := range jobs {
				c17History(r, t, i)
			}
		}()
	}
	hlo, hhi := 0, nHist
	if hr := os.Getenv("VERIF_HIST_RANGE"); hr != "" { // debugging aid: "lo-hi", histories only
		fmt.Sscanf(hr, "%d-%d", &hlo, &hhi)
		nSched, nStress = 0, 0
	}
	for i := hlo; i < hhi; i++ {
		if sel("hist", i) {
			jobs <- i
		}
	}
	close(jobs)
	wg.Wait()
	phase["histories"] = time.Since(t0).Seconds()
	t0 = time.Now()
	for i := 0; i < nSched; i++ {
		if sel("sched", i) {
			c17Schedule(r, t, i)
		}
	}
	phase["schedules"] = time.Since(t0).Seconds()
	t0 = time.Now()
	for i := 0; i < nStress; i++ {
		if sel("stress", i) {
			c17Stress(r, t, i)
		}
	}
	phase["stress"] = time.Since(t0).Seconds()
	hh := map[string]uint64{}
	for _, h := range c17Hooks {
		hh[h] = verifhook.Count(h)
	}
	r.Extra("hook_hits", hh)
	_ = sort.Strings
}
