package g_tsmfile

// C08 — TSM files and tombstones read back what was written (DESIGN §5 C08).
//
// Part A (exploration): a generated sorted set of keys and blocks is written with the real
// TSMWriter, opened with the real TSMReader, and every index / data query is compared with a
// file model (sorted keys → blocks). Then deletes are applied through the reader
// (DeleteRange, Delete, BatchDelete with commit or rollback) and the same queries are compared
// with the tombstone model, before and after close + reopen. A sub-class starts from a
// tombstone file in one of the legacy formats (v1 text, v2 binary, v3 gzip).
//
// Part B (fault enumeration): the directory is copied at every step boundary of the
// Tombstoner's prepare/commit path (verifhook points) while a delete is in flight; every file
// that grew in place between two boundaries is additionally cut at every byte. Every image is
// taken through the engine's start-up cleanup and reopened: the visible tombstone set must be
// exactly the old or the new one, a further delete must succeed and persist.

import (
	"bytes"
	"compress/gzip"
	"encoding/binary"
	"fmt"
	"hash/crc32"
	"math"
	"os"
	"path/filepath"
	"sort"
	"strings"
	"syscall"
	"testing"
	"time"

	"github.com/influxdata/influxdb/v2/pkg/verifhook"
	"github.com/influxdata/influxdb/v2/tsdb/engine/tsm1"

	"verifharness/vkit"
)

// ---- file model ------------------------------------------------------------------------------

type c08Blk struct {
	Min    int64  `json:"min"`
	Max    int64  `json:"max"`
	Offset int64  `json:"offset"`
	Size   uint32 `json:"size"`
	N      int    `json:"points"`
	pts    []tfPt
	vals   []tsm1.Value
	raw    []byte
	crc    uint32
}

type c08Key struct {
	Key    string `json:"key"`
	Type   string `json:"type"`
	typ    int
	Blocks []c08Blk `json:"blocks"`
}

func (k *c08Key) tmin() int64 { return k.Blocks[0].Min }
func (k *c08Key) tmax() int64 { return k.Blocks[len(k.Blocks)-1].Max }

type c08Model struct {
	Keys     []c08Key `json:"keys"`
	TimeMode string   `json:"time_mode"`
	Tombs    []tfTomb `json:"committed_deletes,omitempty"` // in commit order
	Legacy   string   `json:"legacy_tombstone_format,omitempty"`
}

func (m *c08Model) key(k string) *c08Key {
	i := sort.Search(len(m.Keys), func(i int) bool { return m.Keys[i].Key >= k })
	if i < len(m.Keys) && m.Keys[i].Key == k {
		return &m.Keys[i]
	}
	return nil
}

func (m *c08Model) dead(key string, t int64) bool {
	for _, tb := range m.Tombs {
		if tb.covers(key, t) {
			return true
		}
	}
	return false
}

func (m *c08Model) live(k *c08Key) []tfPt {
	var out []tfPt
	for _, b := range k.Blocks {
		for _, p := range b.pts {
			if !m.dead(k.Key, p.T) {
				out = append(out, p)
			}
		}
	}
	return out
}

// keyState: "live" (has live points: must be listed), "gone" (one committed delete covers the
// key's whole time range: must not be listed), "either" (every point is deleted, but only by
// the union of several ranges: whether the index still lists the key is not specified).
func (m *c08Model) keyState(k *c08Key) string {
	if len(m.live(k)) > 0 {
		return "live"
	}
	for _, tb := range m.Tombs {
		if tb.covers(k.Key, k.tmin()) && tb.Min <= k.tmin() && tb.Max >= k.tmax() {
			return "gone"
		}
	}
	return "either"
}

func (m *c08Model) summary() map[string]any {
	type ks struct {
		Key    string     `json:"key"`
		Type   string     `json:"type"`
		Blocks [][2]int64 `json:"block_ranges"`
	}
	var keys []ks
	for _, k := range m.Keys {
		s := ks{Key: k.Key, Type: k.Type}
		if len(s.Key) > 80 {
			s.Key = fmt.Sprintf("%s…(%d bytes)", s.Key[:40], len(k.Key))
		}
		for _, b := range k.Blocks {
			s.Blocks = append(s.Blocks, [2]int64{b.Min, b.Max})
		}
		keys = append(keys, s)
		if len(keys) >= 45 {
			break
		}
	}
	var tombs []tfTomb
	for _, t := range m.Tombs {
		c := tfTomb{Min: t.Min, Max: t.Max}
		for _, k := range t.Keys {
			if len(k) > 80 {
				k = fmt.Sprintf("%s…(%d bytes)", k[:40], len(k))
			}
			c.Keys = append(c.Keys, k)
		}
		tombs = append(tombs, c)
	}
	return map[string]any{"keys": keys, "time_mode": m.TimeMode, "committed_deletes": tombs, "legacy_tombstone_format": m.Legacy}
}

var c08Pieces = []string{"a", "b", "c", ",", "=", "\\ ", "\\,", " ", "#!~#", "\x00", "é", "\xff", "0", "cpu", "host"}

func c08GenKeys(rg *vkit.Rand, n int, long bool) []string {
	set := map[string]bool{}
	var list []string
	add := func(k string) {
		if k != "" && !set[k] && len(k) <= 65535 {
			set[k] = true
			list = append(list, k)
		}
	}
	for tries := 0; len(list) < n && tries < 20*n; tries++ {
		if len(list) > 0 && rg.Chance(1, 3) {
			// neighbours of an existing key: prefix, extension, successor byte
			k := list[rg.Intn(len(list))]
			switch rg.Intn(3) {
			case 0:
				add(k[:rg.Range(1, len(k))])
			case 1:
				add(k + vkit.Pick(rg, c08Pieces))
			default:
				b := []byte(k)
				b[len(b)-1]++
				add(string(b))
			}
			continue
		}
		var sb strings.Builder
		for p := rg.Range(1, 5); p > 0; p-- {
			sb.WriteString(vkit.Pick(rg, c08Pieces))
		}
		add(sb.String())
	}
	if long {
		suffix := vkit.Pick(rg, []string{"#!~#v", "", "z"})
		add(strings.Repeat(vkit.Pick(rg, []string{"k", "a", "\xff"}), 65535-len(suffix)) + suffix)
	}
	sort.Strings(list)
	return list
}

// c08Times returns n sorted distinct timestamps of the file's time mode.
func c08Times(rg *vkit.Rand, mode string, n int) []int64 {
	set := map[int64]bool{}
	for len(set) < n {
		var t int64
		switch mode {
		case "around_zero":
			t = int64(rg.Intn(400) - 200)
		case "epoch_ns":
			t = 1600000000000000000 + int64(rg.Intn(600))*1000000000
		case "all_negative":
			t = -1000000000000 + int64(rg.Intn(600))*7
		default: // "extremes"
			switch rg.Intn(8) {
			case 0:
				t = math.MinInt64 + 2 + int64(rg.Intn(3))
			case 1:
				t = math.MaxInt64 - 1 - int64(rg.Intn(3))
			default:
				t = rg.Int64()
				if t < math.MinInt64+2 {
					t = math.MinInt64 + 2
				}
				if t > math.MaxInt64-1 {
					t = math.MaxInt64 - 1
				}
			}
		}
		set[t] = true
	}
	out := make([]int64, 0, n)
	for t := range set {
		out = append(out, t)
	}
	sort.Slice(out, func(i, j int) bool { return out[i] < out[j] })
	return out
}

// c08Gen generates the model and writes the real file.
func c08Gen(rg *vkit.Rand, path string, ctr *uint64, small bool) (*c08Model, error) {
	m := &c08Model{TimeMode: vkit.Pick(rg, []string{"around_zero", "around_zero", "epoch_ns", "all_negative", "extremes"})}
	nk := []int{1, 2, 3, 5, 8, 13, 40}[rg.Intn(7)]
	if small {
		nk = rg.Range(1, 4)
	}
	keys := c08GenKeys(rg, nk, !small && rg.Chance(1, 10))
	f, err := os.OpenFile(path, os.O_CREATE|os.O_RDWR|os.O_EXCL, 0o666)
	if err != nil {
		return nil, err
	}
	w, err := tsm1.NewTSMWriter(f)
	if err != nil {
		f.Close()
		return nil, err
	}
	pos := int64(5) // magic + version
	for _, k := range keys {
		mk := c08Key{Key: k, typ: rg.Intn(5)}
		mk.Type = tfTypeNames[mk.typ]
		nb := rg.Range(1, 6)
		var sizes []int
		total := 0
		for b := 0; b < nb; b++ {
			sz := rg.Range(1, 8)
			if !small && rg.Chance(1, 60) {
				sz = 1000
			}
			if m.TimeMode != "extremes" && total+sz > 380 {
				sz = 1
			}
			sizes = append(sizes, sz)
			total += sz
		}
		ts := c08Times(rg, m.TimeMode, total)
		for _, sz := range sizes {
			blk := c08Blk{N: sz}
			for _, t := range ts[:sz] {
				*ctr++
				v := tfMk(mk.typ, t, *ctr)
				blk.vals = append(blk.vals, v)
				blk.pts = append(blk.pts, tfCanon(v))
			}
			ts = ts[sz:]
			enc, err := tsm1.Values(blk.vals).Encode(nil)
			if err != nil {
				w.Close()
				return nil, err
			}
			blk.raw, blk.crc = enc, crc32.ChecksumIEEE(enc)
			blk.Min, blk.Max = blk.vals[0].UnixNano(), blk.vals[sz-1].UnixNano()
			blk.Offset, blk.Size = pos, uint32(4+len(enc))
			pos += int64(blk.Size)
			if rg.Bool() {
				err = w.Write([]byte(k), blk.vals)
			} else {
				err = w.WriteBlock([]byte(k), blk.Min, blk.Max, enc)
			}
			if err != nil {
				w.Close()
				return nil, fmt.Errorf("write %q: %w", k, err)
			}
			mk.Blocks = append(mk.Blocks, blk)
		}
		m.Keys = append(m.Keys, mk)
	}
	if err := w.WriteIndex(); err != nil {
		w.Close()
		return nil, err
	}
	return m, w.Close()
}

// ---- query oracle ----------------------------------------------------------------------------

type c08Report func(class string, feat map[string]string, query, want, got string)

func c08ProbeKeys(rg *vkit.Rand, m *c08Model) []string {
	set := map[string]bool{"": false}
	out := []string{}
	add := func(k string) {
		if _, ok := set[k]; !ok && len(k) <= 70000 {
			set[k] = true
			out = append(out, k)
		}
	}
	for i, k := range m.Keys {
		if len(m.Keys) > 12 && i%3 != 0 && i != len(m.Keys)-1 {
			continue
		}
		add(k.Key)
		add(k.Key + "\x00")
		add(k.Key[:len(k.Key)-1])
		b := []byte(k.Key)
		b[len(b)-1]--
		add(string(b))
		b[len(b)-1] += 2
		add(string(b))
	}
	add("\x00")
	add("\xff\xff\xff")
	add(m.Keys[len(m.Keys)-1].Key + "z")
	add("a")
	return out
}

func c08EntriesString(es []tsm1.IndexEntry) string {
	var sb strings.Builder
	for _, e := range es {
		fmt.Fprintf(&sb, "[%d,%d]@%d+%d ", e.MinTime, e.MaxTime, e.Offset, e.Size)
	}
	return sb.String()
}

func c08ModelEntries(k *c08Key) string {
	var sb strings.Builder
	for _, b := range k.Blocks {
		fmt.Fprintf(&sb, "[%d,%d]@%d+%d ", b.Min, b.Max, b.Offset, b.Size)
	}
	return sb.String()
}

func c08Short(s string) string {
	if len(s) > 60 {
		return fmt.Sprintf("%q…(%d bytes)", s[:30], len(s))
	}
	return fmt.Sprintf("%q", s)
}

// c08Check compares every TSMReader query with the model. ev counts what was compared.
func c08Check(rd *tsm1.TSMReader, m *c08Model, rg *vkit.Rand, ev func(string, int64), report c08Report) {
	pristine := len(m.Tombs) == 0
	// --- key listing: KeyCount / KeyAt / Key
	n := rd.KeyCount()
	var listed []string
	inList := map[string]bool{}
	for i := 0; i < n; i++ {
		k, typ := rd.KeyAt(i)
		ks := string(k)
		listed = append(listed, ks)
		inList[ks] = true
		mk := m.key(ks)
		if mk == nil {
			report("listing_unknown_key", nil, fmt.Sprintf("KeyAt(%d)", i), "a key of the file", c08Short(ks))
			continue
		}
		if typ != tfBlockTypes[mk.typ] {
			report("wrong_type", map[string]string{"query": "KeyAt"}, fmt.Sprintf("KeyAt(%d) %s", i, c08Short(ks)), fmt.Sprint(tfBlockTypes[mk.typ]), fmt.Sprint(typ))
		}
		if i > 0 && listed[i-1] >= ks {
			report("listing_not_sorted", nil, fmt.Sprintf("KeyAt(%d)", i), "> "+c08Short(listed[i-1]), c08Short(ks))
		}
		var buf []tsm1.IndexEntry
		k2, typ2, es := rd.Key(i, &buf)
		if string(k2) != ks || typ2 != typ || c08EntriesString(es) != c08ModelEntries(mk) {
			report("index_entries_mismatch", map[string]string{"query": "Key"}, fmt.Sprintf("Key(%d) %s", i, c08Short(ks)), c08ModelEntries(mk), fmt.Sprintf("%s typ=%d %s", c08Short(string(k2)), typ2, c08EntriesString(es)))
		}
		ev("listed_keys_compared", 1)
	}
	for _, mk := range m.Keys {
		st := m.keyState(&mk)
		switch {
		case st == "live" && !inList[mk.Key]:
			report("live_key_not_listed", nil, "KeyAt(0.."+fmt.Sprint(n)+")", c08Short(mk.Key)+" listed", "absent")
		case st == "gone" && inList[mk.Key]:
			report("deleted_key_still_listed", nil, "KeyAt(0.."+fmt.Sprint(n)+")", c08Short(mk.Key)+" absent (a committed delete covers all of it)", "listed")
		case st == "either":
			ev("keys_with_unspecified_listing", 1)
		}
	}
	for _, i := range []int{-1, n, n + 1} {
		if k, typ := rd.KeyAt(i); k != nil || typ != 0 {
			report("key_at_out_of_range", nil, fmt.Sprintf("KeyAt(%d) with %d keys", i, n), "nil,0", fmt.Sprintf("%s,%d", c08Short(string(k)), typ))
		}
	}
	// --- per key queries, on the file's keys and on probe keys around them
	probes := c08ProbeKeys(rg, m)
	for _, pk := range probes {
		key := []byte(pk)
		mk := m.key(pk)
		state := "absent"
		if mk != nil {
			state = m.keyState(mk)
		}
		present := inList[pk] // listing conformity was checked above; the other lookups must agree with it
		// Seek: position of the first listed key >= pk
		want := sort.SearchStrings(listed, pk)
		got := rd.Seek(key)
		ev("seek_compared", 1)
		if got != want {
			if want == len(listed) && len(listed) > 0 {
				report("seek_past_last_key", map[string]string{"probe": "beyond_last_key"}, "Seek("+c08Short(pk)+") with "+fmt.Sprint(len(listed))+" keys, last "+c08Short(listed[len(listed)-1]), fmt.Sprint(want), fmt.Sprint(got))
			} else {
				report("seek_mismatch", nil, "Seek("+c08Short(pk)+")", fmt.Sprint(want), fmt.Sprint(got))
			}
		}
		// Contains
		ev("contains_compared", 1)
		if c := rd.Contains(key); c != present || (state == "live" && !c) || ((state == "gone" || state == "absent") && c) {
			report("contains_mismatch", map[string]string{"key_state": state}, "Contains("+c08Short(pk)+")", fmt.Sprintf("%v (key is %s, listed=%v)", state == "live" || (state == "either" && present), state, present), fmt.Sprint(c))
		}
		// ReadEntries / Entries
		es := rd.ReadEntries(key, nil)
		es2 := rd.Entries(key)
		wantE := ""
		if mk != nil && present {
			wantE = c08ModelEntries(mk)
		}
		ev("entries_compared", 1)
		if c08EntriesString(es) != wantE || c08EntriesString(es2) != wantE {
			report("index_entries_mismatch", map[string]string{"query": "ReadEntries"}, "ReadEntries("+c08Short(pk)+")", wantE, c08EntriesString(es)+" / Entries: "+c08EntriesString(es2))
		}
		// Type
		typ, err := rd.Type(key)
		ev("type_compared", 1)
		if mk != nil && present {
			if err != nil || typ != tfBlockTypes[mk.typ] {
				report("wrong_type", map[string]string{"query": "Type"}, "Type("+c08Short(pk)+")", fmt.Sprint(tfBlockTypes[mk.typ]), fmt.Sprintf("%d err=%v", typ, err))
			}
		} else if err == nil {
			report("type_of_absent_key", nil, "Type("+c08Short(pk)+")", "an error (key is "+state+", not listed)", fmt.Sprintf("%d, nil", typ))
		}
		// ReadAll
		vals, err := rd.ReadAll(key)
		ev("readall_compared", 1)
		var wantPts []tfPt
		if mk != nil {
			wantPts = m.live(mk)
		}
		if err != nil {
			report("read_error", map[string]string{"query": "ReadAll"}, "ReadAll("+c08Short(pk)+")", "ok", err.Error())
		} else if d := c08PtsDiff(wantPts, tfCanonAll(vals)); d != "" {
			cls := "readall_mismatch"
			if mk != nil {
				for _, p := range tfCanonAll(vals) {
					if m.dead(pk, p.T) {
						cls = "deleted_point_visible"
					}
				}
			}
			report(cls, nil, "ReadAll("+c08Short(pk)+")", fmt.Sprintf("%d live points", len(wantPts)), d)
		}
		ev("points_compared", int64(len(wantPts)))
		// ContainsValue
		if mk != nil {
			var ts []int64
			for _, b := range mk.Blocks {
				ts = append(ts, b.Min, b.Max, b.pts[len(b.pts)/2].T)
				if b.Min > math.MinInt64 {
					ts = append(ts, b.Min-1)
				}
				if b.Max < math.MaxInt64 {
					ts = append(ts, b.Max+1)
				}
				if b.Max-b.Min > 1 {
					ts = append(ts, b.Min+(b.Max-b.Min)/2)
				}
			}
			for _, tb := range m.Tombs {
				ts = append(ts, tb.Min, tb.Max)
			}
			for _, t := range ts {
				got := rd.ContainsValue(key, t)
				inBlock, isPoint := false, false
				for _, b := range mk.Blocks {
					if t >= b.Min && t <= b.Max {
						inBlock = true
						for _, p := range b.pts {
							if p.T == t {
								isPoint = true
							}
						}
					}
				}
				ev("contains_value_compared", 1)
				switch {
				case isPoint && !m.dead(pk, t) && !got:
					report("contains_value_mismatch", map[string]string{"want": "true"}, fmt.Sprintf("ContainsValue(%s,%d)", c08Short(pk), t), "true (live point)", "false")
				case got && (!present || !inBlock):
					report("contains_value_mismatch", map[string]string{"want": "false"}, fmt.Sprintf("ContainsValue(%s,%d)", c08Short(pk), t), "false (no block of the key spans the time)", "true")
				case got && m.dead(pk, t):
					report("contains_value_mismatch", map[string]string{"want": "false_deleted"}, fmt.Sprintf("ContainsValue(%s,%d)", c08Short(pk), t), "false (time is inside a committed delete)", "true")
				}
			}
		} else if rd.ContainsValue(key, 0) {
			report("contains_value_mismatch", map[string]string{"want": "false"}, fmt.Sprintf("ContainsValue(%s,0)", c08Short(pk)), "false (no such key)", "true")
		}
	}
	// --- file-wide ranges
	fmin, fmax := int64(math.MaxInt64), int64(math.MinInt64)
	lmin, lmax := int64(math.MaxInt64), int64(math.MinInt64)
	lminK, lmaxK := "", ""
	for i := range m.Keys {
		k := &m.Keys[i]
		if k.tmin() < fmin {
			fmin = k.tmin()
		}
		if k.tmax() > fmax {
			fmax = k.tmax()
		}
		if lv := m.live(k); len(lv) > 0 {
			if lv[0].T < lmin {
				lmin = lv[0].T
			}
			if lv[len(lv)-1].T > lmax {
				lmax = lv[len(lv)-1].T
			}
			if lminK == "" {
				lminK = k.Key
			}
			lmaxK = k.Key
		}
	}
	negFeat := map[string]string{"all_timestamps_negative": fmt.Sprint(fmax < 0), "query": "TimeRange"}
	gmin, gmax := rd.TimeRange()
	ev("time_range_compared", 1)
	if pristine {
		if gmin != fmin {
			report("time_range_min_mismatch", nil, "TimeRange()", fmt.Sprintf("[%d,%d]", fmin, fmax), fmt.Sprintf("[%d,%d]", gmin, gmax))
		}
		if gmax != fmax {
			report("time_range_max_mismatch", negFeat, "TimeRange()", fmt.Sprintf("[%d,%d]", fmin, fmax), fmt.Sprintf("[%d,%d]", gmin, gmax))
		}
	} else {
		if gmin < fmin || (lmin <= lmax && gmin > lmin) {
			report("time_range_min_mismatch", nil, "TimeRange() after deletes", fmt.Sprintf("min within [%d,%d] (file, live)", fmin, lmin), fmt.Sprint(gmin))
		}
		if gmax > fmax || (lmin <= lmax && gmax < lmax) {
			report("time_range_max_mismatch", negFeat, "TimeRange() after deletes", fmt.Sprintf("max within [%d,%d] (live, file)", lmax, fmax), fmt.Sprint(gmax))
		}
	}
	kmin, kmax := rd.KeyRange()
	first, lastK := m.Keys[0].Key, m.Keys[len(m.Keys)-1].Key
	ev("key_range_compared", 1)
	if pristine {
		if string(kmin) != first || string(kmax) != lastK {
			report("key_range_mismatch", nil, "KeyRange()", c08Short(first)+".."+c08Short(lastK), c08Short(string(kmin))+".."+c08Short(string(kmax)))
		}
	} else if string(kmin) < first || string(kmax) > lastK || (lminK != "" && (string(kmin) > lminK || string(kmax) < lmaxK)) {
		report("key_range_mismatch", nil, "KeyRange() after deletes", "covers live keys "+c08Short(lminK)+".."+c08Short(lmaxK)+" within "+c08Short(first)+".."+c08Short(lastK), c08Short(string(kmin))+".."+c08Short(string(kmax)))
	}
	// OverlapsTimeRange / OverlapsKeyRange around the boundaries
	var tb []int64
	for _, t := range []int64{fmin, fmax} {
		tb = append(tb, t)
		if t > math.MinInt64 {
			tb = append(tb, t-1)
		}
		if t < math.MaxInt64 {
			tb = append(tb, t+1)
		}
	}
	tb = append(tb, math.MinInt64, math.MaxInt64, 0)
	for _, a := range tb {
		for _, b := range tb {
			if a > b {
				continue
			}
			got := rd.OverlapsTimeRange(a, b)
			fileOv := a <= fmax && b >= fmin
			liveOv := lmin <= lmax && a <= lmax && b >= lmin
			ev("overlaps_time_compared", 1)
			if (pristine && got != fileOv) || (!pristine && ((liveOv && !got) || (!fileOv && got))) {
				cls := "overlaps_time_range_mismatch"
				if got && !fileOv && a > fmax && gmax > fmax && a <= gmax {
					cls = "time_range_max_mismatch" // the answer follows the reader's own (too large) maximum
				}
				report(cls, map[string]string{"all_timestamps_negative": fmt.Sprint(fmax < 0), "query": "OverlapsTimeRange"}, fmt.Sprintf("OverlapsTimeRange(%d,%d), file [%d,%d]", a, b, fmin, fmax), fmt.Sprint(fileOv), fmt.Sprint(got))
			}
		}
	}
	kb := []string{first, lastK, first + "\x00", lastK + "\x00", "\x00", "\xff\xff\xff\xff"}
	if len(first) > 1 {
		kb = append(kb, first[:len(first)-1])
	}
	for _, a := range kb {
		for _, b := range kb {
			if a > b {
				continue
			}
			got := rd.OverlapsKeyRange([]byte(a), []byte(b))
			fileOv := a <= lastK && b >= first
			liveOv := lminK != "" && a <= lmaxK && b >= lminK
			ev("overlaps_key_compared", 1)
			if (pristine && got != fileOv) || (!pristine && ((liveOv && !got) || (!fileOv && got))) {
				report("overlaps_key_range_mismatch", nil, "OverlapsKeyRange("+c08Short(a)+","+c08Short(b)+")", fmt.Sprint(fileOv), fmt.Sprint(got))
			}
		}
	}
	// --- BlockIterator: every block of every listed key, raw and in order
	it := rd.BlockIterator()
	li, bi := 0, 0
	for it.Next() {
		key, minT, maxT, typ, crc, buf, err := it.Read()
		if err != nil {
			report("read_error", map[string]string{"query": "BlockIterator"}, "BlockIterator.Read", "ok", err.Error())
			break
		}
		for li < len(listed) && (m.key(listed[li]) == nil || bi >= len(m.key(listed[li]).Blocks)) {
			li, bi = li+1, 0
		}
		if li >= len(listed) {
			report("block_iterator_mismatch", nil, "BlockIterator", "end of iteration", fmt.Sprintf("extra block of %s [%d,%d]", c08Short(string(key)), minT, maxT))
			break
		}
		mk := m.key(listed[li])
		b := mk.Blocks[bi]
		ev("iterator_blocks_compared", 1)
		if string(key) != mk.Key || minT != b.Min || maxT != b.Max || typ != tfBlockTypes[mk.typ] || crc != b.crc || !bytes.Equal(buf, b.raw) {
			report("block_iterator_mismatch", nil, fmt.Sprintf("BlockIterator block #%d of %s", bi, c08Short(mk.Key)),
				fmt.Sprintf("[%d,%d] typ=%d crc=%08x %d bytes", b.Min, b.Max, tfBlockTypes[mk.typ], b.crc, len(b.raw)),
				fmt.Sprintf("%s [%d,%d] typ=%d crc=%08x %d bytes", c08Short(string(key)), minT, maxT, typ, crc, len(buf)))
			break
		}
		bi++
	}
	if err := it.Err(); err != nil {
		report("read_error", map[string]string{"query": "BlockIterator"}, "BlockIterator.Err", "nil", err.Error())
	} else {
		for li < len(listed) && (m.key(listed[li]) == nil || bi >= len(m.key(listed[li]).Blocks)) {
			li, bi = li+1, 0
		}
		if li < len(listed) {
			report("block_iterator_mismatch", nil, "BlockIterator", fmt.Sprintf("block #%d of %s", bi, c08Short(listed[li])), "end of iteration")
		}
	}
	// --- a committed delete that hides a point must be visible as a tombstone
	hidden := false
	for i := range m.Keys {
		for _, b := range m.Keys[i].Blocks {
			for _, p := range b.pts {
				if m.dead(m.Keys[i].Key, p.T) {
					hidden = true
				}
			}
		}
	}
	if hidden && !rd.HasTombstones() {
		report("has_tombstones_false", nil, "HasTombstones()", "true (a committed delete hides points)", "false")
	}
}

func c08PtsDiff(want, got []tfPt) string {
	if len(want) != len(got) {
		gm := map[int64]bool{}
		for _, p := range got {
			gm[p.T] = true
		}
		for _, p := range want {
			if !gm[p.T] {
				return fmt.Sprintf("%d points returned, %d expected; first missing t=%d", len(got), len(want), p.T)
			}
		}
		wm := map[int64]bool{}
		for _, p := range want {
			wm[p.T] = true
		}
		for _, p := range got {
			if !wm[p.T] {
				return fmt.Sprintf("%d points returned, %d expected; first unexpected t=%d (%s)", len(got), len(want), p.T, p.V)
			}
		}
		return fmt.Sprintf("%d points returned, %d expected (duplicates)", len(got), len(want))
	}
	for i := range want {
		if want[i] != got[i] {
			return fmt.Sprintf("point #%d: want t=%d %s, got t=%d %s", i, want[i].T, want[i].V, got[i].T, got[i].V)
		}
	}
	return ""
}

// ---- deletes ---------------------------------------------------------------------------------

type c08Op struct {
	Kind   string   `json:"kind"` // DeleteRange | Delete | Batch
	Ranges []tfTomb `json:"ranges"`
	Commit bool     `json:"commit"`
}

func c08GenRange(rg *vkit.Rand, m *c08Model) tfTomb {
	// keys: a sorted subset of the file's keys, sometimes with keys the file does not hold
	var keys []string
	pick := m.Keys[rg.Intn(len(m.Keys))]
	keys = append(keys, pick.Key)
	for _, k := range m.Keys {
		if k.Key != pick.Key && rg.Chance(1, 4) {
			keys = append(keys, k.Key)
		}
	}
	if rg.Chance(1, 4) {
		keys = append(keys, pick.Key+"\x00", "\x00absent")
	}
	sort.Strings(keys)
	b := pick.Blocks[rg.Intn(len(pick.Blocks))]
	p := b.pts[rg.Intn(len(b.pts))].T
	sat := func(t int64, d int64) int64 {
		if d > 0 && t > math.MaxInt64-d {
			return math.MaxInt64
		}
		if d < 0 && t < math.MinInt64-d {
			return math.MinInt64
		}
		return t + d
	}
	var lo, hi int64
	switch rg.Intn(11) {
	case 0:
		lo, hi = math.MinInt64, math.MaxInt64
	case 1: // the key's whole range
		lo, hi = pick.tmin(), pick.tmax()
	case 2: // one block
		lo, hi = b.Min, b.Max
	case 3: // one point
		lo, hi = p, p
	case 4: // open below
		lo, hi = math.MinInt64, p
	case 5: // open above
		lo, hi = p, math.MaxInt64
	case 6: // just outside the key
		if rg.Bool() {
			lo, hi = sat(pick.tmax(), 1), sat(pick.tmax(), 10)
		} else {
			lo, hi = sat(pick.tmin(), -10), sat(pick.tmin(), -1)
		}
	case 7: // lines up with the previous delete: starts right after it
		if len(m.Tombs) > 0 {
			prev := m.Tombs[len(m.Tombs)-1]
			if prev.Max < math.MaxInt64 {
				lo, hi = prev.Max+1, sat(prev.Max, 1+int64(rg.Intn(50)))
				if rg.Bool() {
					hi = pick.tmax()
				}
				if hi < lo {
					hi = lo
				}
				break
			}
		}
		lo, hi = pick.tmin(), p
	case 8: // between two neighbouring points: hides nothing
		if p < math.MaxInt64 && !containsTime(pick, p+1) {
			lo, hi = p+1, p+1
		} else {
			lo, hi = p, p
		}
	default: // cut across blocks
		b2 := pick.Blocks[rg.Intn(len(pick.Blocks))]
		q := b2.pts[rg.Intn(len(b2.pts))].T
		lo, hi = p, q
		if lo > hi {
			lo, hi = hi, lo
		}
		lo, hi = sat(lo, int64(rg.Intn(3)-1)), sat(hi, int64(rg.Intn(3)-1))
		if lo > hi {
			lo, hi = hi, lo
		}
	}
	return tfTomb{Keys: keys, Min: lo, Max: hi}
}

func containsTime(k c08Key, t int64) bool {
	for _, b := range k.Blocks {
		for _, p := range b.pts {
			if p.T == t {
				return true
			}
		}
	}
	return false
}

func c08GenOp(rg *vkit.Rand, m *c08Model) c08Op {
	switch rg.Intn(6) {
	case 0:
		t := c08GenRange(rg, m)
		t.Min, t.Max = math.MinInt64, math.MaxInt64
		return c08Op{Kind: "Delete", Ranges: []tfTomb{t}, Commit: true}
	case 1, 2:
		op := c08Op{Kind: "Batch", Commit: !rg.Chance(1, 3)}
		for n := rg.Range(1, 3); n > 0; n-- {
			op.Ranges = append(op.Ranges, c08GenRange(rg, m))
		}
		return op
	default:
		return c08Op{Kind: "DeleteRange", Ranges: []tfTomb{c08GenRange(rg, m)}, Commit: true}
	}
}

// c08Apply runs the op on the real reader and, when it commits, on the model.
func c08Apply(rd *tsm1.TSMReader, m *c08Model, op c08Op) error {
	var err error
	switch op.Kind {
	case "Delete":
		err = rd.Delete(tfKeysBytes(op.Ranges[0].Keys))
	case "DeleteRange":
		t := op.Ranges[0]
		err = rd.DeleteRange(tfKeysBytes(t.Keys), t.Min, t.Max)
	default:
		b := rd.BatchDelete()
		for _, t := range op.Ranges {
			if err = b.DeleteRange(tfKeysBytes(t.Keys), t.Min, t.Max); err != nil {
				b.Rollback()
				return err
			}
		}
		if op.Commit {
			err = b.Commit()
		} else {
			err = b.Rollback()
		}
	}
	if err == nil && op.Commit {
		m.Tombs = append(m.Tombs, op.Ranges...)
	}
	return err
}

// ---- legacy tombstone files ------------------------------------------------------------------

// c08WriteLegacy writes a tombstone file in one of the formats older versions wrote
// (documented by readTombstoneV1/V2/V3 in tombstone.go).
func c08WriteLegacy(tsmPath, format string, tombs []tfTomb) error {
	path := strings.TrimSuffix(tsmPath, ".tsm") + ".tombstone"
	var buf bytes.Buffer
	entry := func(w *bytes.Buffer, key string, lo, hi int64) {
		var b [8]byte
		binary.BigEndian.PutUint32(b[:4], uint32(len(key)))
		w.Write(b[:4])
		w.WriteString(key)
		binary.BigEndian.PutUint64(b[:], uint64(lo))
		w.Write(b[:])
		binary.BigEndian.PutUint64(b[:], uint64(hi))
		w.Write(b[:])
	}
	switch format {
	case "v1":
		for _, t := range tombs {
			for _, k := range t.Keys {
				buf.WriteString(k + "\n")
			}
		}
	case "v2":
		buf.Write([]byte{0, 0, 0x15, 0x02})
		for _, t := range tombs {
			for _, k := range t.Keys {
				entry(&buf, k, t.Min, t.Max)
			}
		}
	default: // v3
		buf.Write([]byte{0, 0, 0x15, 0x03})
		var raw bytes.Buffer
		for _, t := range tombs {
			for _, k := range t.Keys {
				entry(&raw, k, t.Min, t.Max)
			}
		}
		gz := gzip.NewWriter(&buf)
		gz.Write(raw.Bytes())
		gz.Close()
	}
	return os.WriteFile(path, buf.Bytes(), 0o666)
}

// ---- part A ------------------------------------------------------------------------------------

type c08Witness struct {
	File    any     `json:"file"`
	History []c08Op `json:"delete_history,omitempty"`
	Phase   string  `json:"phase"`
	Query   string  `json:"query"`
	Want    string  `json:"want"`
	Got     string  `json:"got"`
	Err     string  `json:"err,omitempty"`
}

type c08Limiter struct {
	r    *vkit.Run
	seen map[string]int
}

// violation reports at most two witnesses per class and run; every occurrence is counted.
func (l *c08Limiter) violation(class string, feat map[string]string, w any) {
	l.violationKeyed(class, 2, class, feat, w)
}

func (l *c08Limiter) violationKeyed(key string, max int, class string, feat map[string]string, w any) {
	l.r.Event("mismatch_"+class, 1)
	l.seen[key]++
	if l.seen[key] <= max {
		l.r.Violation(class, feat, w)
	}
}

func c08FileCase(r *vkit.Run, lim *c08Limiter, caseNo int, base string, ctr *uint64) {
	rg := r.Rand(caseNo)
	dir, err := os.MkdirTemp(base, "f")
	if err != nil {
		r.T.Fatal(err)
	}
	defer os.RemoveAll(dir)
	path := tfFileName(dir, 1, 1)
	m, err := c08Gen(rg, path, ctr, false)
	if err != nil {
		lim.violation("setup_failed", map[string]string{"step": "write_file"}, map[string]any{"err": err.Error()})
		return
	}
	nblocks, longKey := 0, false
	var canon strings.Builder
	for _, k := range m.Keys {
		nblocks += len(k.Blocks)
		if len(k.Key) > 60000 {
			longKey = true
			fmt.Fprintf(&canon, "long%d|", len(k.Key))
		} else {
			canon.WriteString(k.Key + "|")
		}
		for _, b := range k.Blocks {
			fmt.Fprintf(&canon, "%d:%d:%d,", b.Min, b.Max, b.N)
		}
	}
	if longKey {
		r.Event("files_with_max_length_key", 1)
		// one byte more must be refused, not truncated
		if f, err := os.CreateTemp(dir, "toolong"); err == nil {
			w, _ := tsm1.NewTSMWriter(f)
			if err := w.Write(bytes.Repeat([]byte("k"), 65536), []tsm1.Value{tfMk(tfInteger, 1, 1)}); err != tsm1.ErrMaxKeyLengthExceeded {
				lim.violation("oversized_key_accepted", nil, map[string]any{"err": fmt.Sprint(err)})
			}
			w.Close()
			os.Remove(f.Name())
		}
	}
	// legacy tombstone file present before the first open?
	var history []c08Op
	if rg.Chance(1, 6) {
		m.Legacy = vkit.Pick(rg, []string{"v1", "v2", "v3"})
		var ts []tfTomb
		for n := rg.Range(1, 2); n > 0; n-- {
			t := c08GenRange(rg, m)
			var own []string // older versions only recorded keys of the file
			for _, k := range t.Keys {
				if m.key(k) != nil {
					own = append(own, k)
				}
			}
			t.Keys = own
			if m.Legacy == "v1" {
				t.Min, t.Max = math.MinInt64, math.MaxInt64
			}
			ts = append(ts, t)
		}
		if err := c08WriteLegacy(path, m.Legacy, ts); err != nil {
			r.T.Fatal(err)
		}
		m.Tombs = append(m.Tombs, ts...)
		history = append(history, c08Op{Kind: "legacy_" + m.Legacy + "_tombstone_file", Ranges: ts, Commit: true})
		r.Event("files_with_legacy_tombstones_"+m.Legacy, 1)
	}
	rd, err := tfOpenReader(path)
	if err != nil {
		lim.violation("open_failed", map[string]string{"phase": "first_open"}, c08Witness{File: m.summary(), History: history, Phase: "first_open", Err: err.Error()})
		return
	}
	phase := "written"
	mkReport := func() c08Report {
		return func(class string, feat map[string]string, query, want, got string) {
			f := map[string]string{"phase": strings.SplitN(phase, "#", 2)[0]}
			for k, v := range feat {
				f[k] = v
			}
			w := c08Witness{File: m.summary(), History: append([]c08Op(nil), history...), Phase: phase, Query: query, Want: want, Got: got}
			if m.Legacy != "" && class != "seek_past_last_key" && class != "time_range_max_mismatch" {
				// files that start from a tombstone file of an older format: one class, one
				// witness per format and run, what was observed goes into the features
				r.Event("legacy_"+m.Legacy+"_"+class+"_"+f["phase"], 1)
				lim.violationKeyed("legacy_tombstone_file/"+m.Legacy, 1, "legacy_tombstone_file", map[string]string{"legacy": m.Legacy, "observed": class, "phase": f["phase"]}, w)
				return
			}
			lim.violation(class, f, w)
		}
	}
	c08Check(rd, m, r.SubRand("probe", caseNo), r.Event, mkReport())
	r.Event("reader_checks_"+strings.SplitN(phase, "#", 2)[0], 1)
	nops := rg.Range(1, 4)
	for i := 0; i < nops; i++ {
		op := c08GenOp(rg, m)
		history = append(history, op)
		if err := c08Apply(rd, m, op); err != nil {
			phase = fmt.Sprintf("after_delete#%d", i)
			lim.violation("delete_failed", map[string]string{"op": op.Kind, "legacy": m.Legacy}, c08Witness{File: m.summary(), History: history, Phase: phase, Err: err.Error()})
			rd.Close()
			return
		}
		r.Event("delete_ops_"+op.Kind+map[bool]string{true: "", false: "_rollback"}[op.Commit], 1)
		if i == nops-1 || rg.Bool() {
			phase = fmt.Sprintf("after_delete#%d", i)
			c08Check(rd, m, r.SubRand("probe", caseNo), r.Event, mkReport())
			r.Event("reader_checks_after_delete", 1)
		}
	}
	if err := rd.Close(); err != nil {
		lim.violation("close_failed", nil, c08Witness{File: m.summary(), History: history, Phase: phase, Err: err.Error()})
	}
	if ents, _ := filepath.Glob(filepath.Join(dir, "*.tmp")); len(ents) > 0 {
		lim.violation("tmp_file_left_behind", map[string]string{"phase": "after_close"}, c08Witness{File: m.summary(), History: history, Phase: "after_close", Got: fmt.Sprint(ents)})
	}
	rd, err = tfOpenReader(path)
	if err != nil {
		lim.violation("open_failed", map[string]string{"phase": "reopen"}, c08Witness{File: m.summary(), History: history, Phase: "reopen", Err: err.Error()})
		return
	}
	phase = "reopen"
	c08Check(rd, m, r.SubRand("probe", caseNo), r.Event, mkReport())
	r.Event("reader_checks_reopen", 1)
	// one more delete on the reopened reader, then a second reopen
	op := c08GenOp(rg, m)
	history = append(history, op)
	if err := c08Apply(rd, m, op); err != nil {
		lim.violation("delete_failed", map[string]string{"op": op.Kind, "phase": "reopen", "legacy": m.Legacy}, c08Witness{File: m.summary(), History: history, Phase: "delete_after_reopen", Err: err.Error()})
		rd.Close()
		return
	}
	rd.Close()
	if rd, err = tfOpenReader(path); err != nil {
		lim.violation("open_failed", map[string]string{"phase": "second_reopen"}, c08Witness{File: m.summary(), History: history, Phase: "second_reopen", Err: err.Error()})
		return
	}
	phase = "second_reopen"
	c08Check(rd, m, r.SubRand("probe", caseNo), r.Event, mkReport())
	r.Event("reader_checks_second_reopen", 1)
	rd.Close()
	for _, t := range m.Tombs {
		canon.WriteString(fmt.Sprintf("T%v:%d:%d", len(t.Keys), t.Min, t.Max))
	}
	r.Case("file|"+m.Legacy+"|"+canon.String(), len(m.Keys) >= 2 || nblocks >= 2)
	if r.WantSample() && caseNo%40 == 1 {
		r.Sample(map[string]any{"case": caseNo, "part": "A", "file": m.summary(), "delete_history": history})
	}
}

// ---- part B: crash images of the tombstone commit ------------------------------------------------

var c08Hooks = []string{
	"tsm1.tombstone.prepareV4.afterCreateTmp",
	"tsm1.tombstone.prepareV4.afterCopy",
	"tsm1.tombstone.commit.afterFlush",
	"tsm1.tombstone.commit.afterSync",
	"tsm1.tombstone.commit.afterRename",
	"tsm1.tombstone.commit.afterSyncDir",
}

type c08ImgFile struct {
	Name string
	Size int64
	Ino  uint64
	Data []byte // nil for the immutable .tsm file (hard-linked when materialised)
}

type c08Image struct {
	Label string
	Files []c08ImgFile
}

func c08Snapshot(dir, label string) c08Image {
	img := c08Image{Label: label}
	ents, _ := os.ReadDir(dir)
	for _, e := range ents {
		if e.IsDir() {
			continue
		}
		p := filepath.Join(dir, e.Name())
		st, err := os.Stat(p)
		if err != nil {
			continue
		}
		f := c08ImgFile{Name: e.Name(), Size: st.Size()}
		if sys, ok := st.Sys().(*syscall.Stat_t); ok {
			f.Ino = sys.Ino
		}
		if !strings.HasSuffix(e.Name(), ".tsm") {
			f.Data, _ = os.ReadFile(p)
			f.Size = int64(len(f.Data))
		}
		img.Files = append(img.Files, f)
	}
	return img
}

func (img c08Image) describe() []string {
	var out []string
	for _, f := range img.Files {
		out = append(out, fmt.Sprintf("%s(%d bytes)", f.Name, f.Size))
	}
	return out
}

// materialise writes the image into dst (the .tsm file is hard-linked from src).
func (img c08Image) materialise(src, dst string) error {
	for _, f := range img.Files {
		if f.Data == nil {
			if err := os.Link(filepath.Join(src, f.Name), filepath.Join(dst, f.Name)); err != nil {
				return err
			}
			continue
		}
		if err := os.WriteFile(filepath.Join(dst, f.Name), f.Data, 0o666); err != nil {
			return err
		}
	}
	return nil
}

// c08Torn derives the torn-write images between two consecutive step images: a file that kept
// its inode and grew (or was created) was being appended to; the crash may have left any
// prefix of the new bytes, optionally followed by garbage up to the new length.
func c08Torn(prev, next c08Image, ambiguous *bool) []c08Image {
	var out []c08Image
	for _, nf := range next.Files {
		if nf.Data == nil {
			continue
		}
		var old *c08ImgFile
		for i := range prev.Files {
			if prev.Files[i].Name == nf.Name && prev.Files[i].Ino == nf.Ino {
				old = &prev.Files[i]
			}
		}
		from := int64(0)
		if old != nil {
			if old.Size >= nf.Size || !bytes.HasPrefix(nf.Data, old.Data) {
				continue
			}
			from = old.Size + 1
		} else {
			// a file that did not exist (under this inode) at the previous step; if another name
			// held that inode it was renamed (atomic), not written
			renamed := false
			for _, pf := range prev.Files {
				if pf.Ino == nf.Ino {
					renamed = true
					if pf.Size != nf.Size && ambiguous != nil {
						// renamed AND written between two step boundaries: the order of the two
						// is not observable from the images, so no torn image is derived
						*ambiguous = true
					}
				}
			}
			if renamed {
				continue
			}
		}
		for cut := from; cut < nf.Size; cut++ {
			for _, fill := range []string{"cut", "garbage"} {
				if fill == "garbage" && cut > from+2 && cut < nf.Size-2 && (cut-from)%8 != 0 {
					continue // garbage-filled variant at the ends of the new region and every 8th byte
				}
				img := c08Image{Label: fmt.Sprintf("%s→%s:%s@%d/%d:%s", prev.Label, next.Label, nf.Name, cut, nf.Size, fill)}
				for _, pf := range prev.Files {
					if pf.Name != nf.Name {
						img.Files = append(img.Files, pf)
					}
				}
				data := append([]byte(nil), nf.Data[:cut]...)
				if fill == "garbage" {
					data = append(data, bytes.Repeat([]byte{0xA5}, int(nf.Size-cut))...)
				}
				img.Files = append(img.Files, c08ImgFile{Name: nf.Name, Size: int64(len(data)), Ino: nf.Ino, Data: data})
				out = append(out, img)
			}
		}
	}
	return out
}

// c08Visible reads what a reopened reader shows: listed keys and live points per file key.
func c08Visible(rd *tsm1.TSMReader, m *c08Model) (map[string][]tfPt, map[string]bool, error) {
	pts := map[string][]tfPt{}
	listed := map[string]bool{}
	for i := 0; i < rd.KeyCount(); i++ {
		k, _ := rd.KeyAt(i)
		listed[string(k)] = true
	}
	for _, k := range m.Keys {
		vs, err := rd.ReadAll([]byte(k.Key))
		if err != nil {
			return nil, nil, err
		}
		pts[k.Key] = tfCanonAll(vs)
	}
	return pts, listed, nil
}

// c08Matches: does the visible content equal the model with the given committed deletes?
func c08Matches(m *c08Model, tombs []tfTomb, pts map[string][]tfPt, listed map[string]bool) string {
	mm := &c08Model{Keys: m.Keys, Tombs: tombs}
	for i := range m.Keys {
		k := &m.Keys[i]
		if d := c08PtsDiff(mm.live(k), pts[k.Key]); d != "" {
			return fmt.Sprintf("key %s: %s", c08Short(k.Key), d)
		}
		switch st := mm.keyState(k); {
		case st == "live" && !listed[k.Key]:
			return fmt.Sprintf("key %s has live points but is not listed", c08Short(k.Key))
		case st == "gone" && listed[k.Key]:
			return fmt.Sprintf("key %s is fully deleted but listed", c08Short(k.Key))
		}
	}
	return ""
}

type c08CrashWitness struct {
	File     any      `json:"file"`
	Before   []c08Op  `json:"committed_before"`
	InFlight c08Op    `json:"in_flight"`
	Image    string   `json:"crash_image"`
	Files    []string `json:"image_files"`
	Step     string   `json:"step"`
	Detail   string   `json:"detail"`
	VsOld    string   `json:"diff_to_old_set,omitempty"`
	VsNew    string   `json:"diff_to_new_set,omitempty"`
	Err      string   `json:"err,omitempty"`
}

func c08CrashCase(r *vkit.Run, lim *c08Limiter, caseNo int, base string, ctr *uint64) {
	rg := r.SubRand("crash", caseNo)
	dir, err := os.MkdirTemp(base, "k")
	if err != nil {
		r.T.Fatal(err)
	}
	defer os.RemoveAll(dir)
	live := filepath.Join(dir, "live")
	os.Mkdir(live, 0o777)
	path := tfFileName(live, 1, 1)
	m, err := c08Gen(rg, path, ctr, true)
	if err != nil {
		lim.violation("setup_failed", map[string]string{"step": "write_file"}, map[string]any{"err": err.Error()})
		return
	}
	rd, err := tfOpenReader(path)
	if err != nil {
		lim.violation("setup_failed", map[string]string{"step": "open"}, map[string]any{"err": err.Error()})
		return
	}
	var before []c08Op
	for n := rg.Intn(3); n > 0; n-- { // 0–2 deletes committed earlier: the V4 append path copies them
		op := c08GenOp(rg, m)
		op.Commit = true
		if op.Kind == "Batch" && len(op.Ranges) == 0 {
			continue
		}
		if err := c08Apply(rd, m, op); err != nil {
			lim.violation("delete_failed", map[string]string{"op": op.Kind, "phase": "crash_setup"}, map[string]any{"err": err.Error()})
			rd.Close()
			return
		}
		before = append(before, op)
	}
	oldTombs := append([]tfTomb(nil), m.Tombs...)
	// the delete in flight must change something visible, otherwise old = new
	var op c08Op
	for tries := 0; ; tries++ {
		op = c08GenOp(rg, m)
		op.Commit = true
		hides := false
		for _, t := range op.Ranges {
			for i := range m.Keys {
				for _, p := range m.live(&m.Keys[i]) {
					if t.covers(m.Keys[i].Key, p.T) {
						hides = true
					}
				}
			}
		}
		if hides {
			break
		}
		if tries > 30 {
			// every point is already deleted: no delete can be "in flight" visibly
			r.Event("crash_cases_skipped_nothing_left_to_delete", 1)
			rd.Close()
			return
		}
	}
	images := []c08Image{c08Snapshot(live, "before")}
	var restore []func()
	for _, h := range c08Hooks {
		h := h
		restore = append(restore, verifhook.Set(h, func(string, interface{}) {
			images = append(images, c08Snapshot(live, strings.TrimPrefix(h, "tsm1.tombstone.")))
			r.Event("hook_"+h, 1)
		}))
	}
	opErr := c08Apply(rd, m, op)
	for _, f := range restore {
		f()
	}
	if opErr != nil {
		lim.violation("delete_failed", map[string]string{"op": op.Kind, "phase": "in_flight"}, map[string]any{"err": opErr.Error()})
		rd.Close()
		return
	}
	newTombs := append([]tfTomb(nil), m.Tombs...)
	images = append(images, c08Snapshot(live, "acknowledged"))
	rd.Close()
	if len(images) < 4 {
		r.Inconclusive("tombstone commit hooks not reached")
		return
	}
	r.Case(fmt.Sprintf("crash|%s|%d|%v|%v", op.Kind, len(before), op.Ranges, m.summary()), true)
	if r.WantSample() && caseNo%9 == 2 {
		var labels []string
		for _, im := range images {
			labels = append(labels, im.Label+" "+strings.Join(im.describe(), ","))
		}
		r.Sample(map[string]any{"case": caseNo, "part": "B", "file": m.summary(), "committed_before": before, "in_flight": op, "step_images": labels})
	}
	// all images: step images plus the torn writes between consecutive steps
	type job struct {
		img  c08Image
		step string // before | in_flight | acknowledged
	}
	var jobs []job
	for i, im := range images {
		step := "in_flight"
		if i == 0 {
			step = "before"
		} else if i == len(images)-1 {
			step = "acknowledged"
		}
		jobs = append(jobs, job{im, step})
		if i+1 < len(images) {
			ambiguous := false
			torn := c08Torn(im, images[i+1], &ambiguous)
			if ambiguous {
				r.Inconclusive("a file was renamed and written between two consecutive tombstone commit hook points; torn states of that step are not enumerated")
			}
			for _, t := range torn {
				jobs = append(jobs, job{t, "in_flight"})
				r.Event("torn_write_images", 1)
			}
		}
	}
	nextDel := c08GenRange(rg, m)
	for _, j := range jobs {
		r.Event("crash_images_reopened", 1)
		work, err := os.MkdirTemp(dir, "img")
		if err != nil {
			r.T.Fatal(err)
		}
		func() {
			defer os.RemoveAll(work)
			wit := c08CrashWitness{File: m.summary(), Before: before, InFlight: op, Image: j.img.Label, Files: j.img.describe(), Step: j.step}
			feat := map[string]string{"step": j.step, "op": op.Kind}
			fail := func(class, detail string, err error) {
				wit.Detail = detail
				if err != nil {
					wit.Err = err.Error()
				}
				lim.violation(class, feat, wit)
			}
			if err := j.img.materialise(live, work); err != nil {
				r.T.Fatal(err)
			}
			// restart: the engine removes temporary files before it opens the file store
			if err := tsm1.VerifStartupCleanup(work); err != nil {
				fail("startup_cleanup_failed", "Engine.cleanup returned an error on the crash image", err)
				return
			}
			var rd2 *tsm1.TSMReader
			var pts map[string][]tfPt
			var listed map[string]bool
			perr := func() (perr error) {
				defer func() {
					if x := recover(); x != nil {
						perr = fmt.Errorf("panic: %v", x)
					}
				}()
				var err error
				if rd2, err = tfOpenReader(tfFileName(work, 1, 1)); err != nil {
					return err
				}
				pts, listed, err = c08Visible(rd2, m)
				return err
			}()
			if perr != nil {
				fail("reopen_failed_after_crash", "the crash image cannot be opened and read", perr)
				if rd2 != nil {
					rd2.Close()
				}
				return
			}
			dOld, dNew := c08Matches(m, oldTombs, pts, listed), c08Matches(m, newTombs, pts, listed)
			wit.VsOld, wit.VsNew = dOld, dNew
			var cur []tfTomb
			switch {
			case j.step == "before" && dOld != "":
				fail("tombstones_changed_before_delete", "the image taken before the delete does not show the old tombstone set", nil)
			case j.step == "acknowledged" && dNew != "":
				fail("acknowledged_delete_lost", "the image taken after the delete returned does not show the new tombstone set", nil)
			case dOld != "" && dNew != "":
				fail("neither_old_nor_new_tombstones", "the reopened image shows neither the old nor the new tombstone set", nil)
			}
			if dNew == "" {
				cur = newTombs
				r.Event("images_showing_new_set", 1)
			} else if dOld == "" {
				cur = oldTombs
				r.Event("images_showing_old_set", 1)
			} else {
				rd2.Close()
				return
			}
			// the next delete must not be blocked by anything the crash left behind
			if err := rd2.DeleteRange(tfKeysBytes(nextDel.Keys), nextDel.Min, nextDel.Max); err != nil {
				fail("delete_blocked_after_crash", "a delete on the recovered file fails", err)
				rd2.Close()
				return
			}
			rd2.Close()
			after := append(append([]tfTomb(nil), cur...), nextDel)
			if err := tsm1.VerifStartupCleanup(work); err != nil {
				fail("startup_cleanup_failed", "Engine.cleanup returned an error after the follow-up delete", err)
				return
			}
			rd3, err := tfOpenReader(tfFileName(work, 1, 1))
			if err != nil {
				fail("reopen_failed_after_crash", "the recovered file cannot be reopened after a follow-up delete", err)
				return
			}
			pts, listed, err = c08Visible(rd3, m)
			rd3.Close()
			if err != nil {
				fail("reopen_failed_after_crash", "the recovered file cannot be read after a follow-up delete", err)
				return
			}
			if d := c08Matches(m, after, pts, listed); d != "" {
				wit.VsNew = d
				fail("follow_up_delete_not_persisted", "after recovery + delete + reopen the tombstone set is not recovered set + delete", nil)
			}
			r.Event("follow_up_deletes_verified", 1)
		}()
	}
}

func TestC08(t *testing.T) {
	r := vkit.Start(t, "C08", "fault_enumeration")
	defer r.Finish()
	r.Rule("part A case = a real TSM file of 1–40 sorted keys (built from escape-heavy pieces, prefixes/successors of each other, one file in ten with a 65535-byte key), 1–6 consecutive blocks of 1–8 (rarely 1000) points per key, one of five value types per key, timestamps around zero / epoch ns / all negative / int64 extremes, written with Write or WriteBlock; every TSMReader query is compared with the file model, then 1–4 deletes (DeleteRange, Delete, BatchDelete commit/rollback; full key, whole key range, one block, one point, open-ended, just outside, adjacent to the previous delete, between points, cuts; absent keys mixed in) are applied and the queries repeated, after close+reopen, after a further delete and a second reopen; one file in six starts with a legacy (v1/v2/v3) tombstone file. part B case = a small file, 0–2 committed deletes, one delete in flight whose Tombstoner prepare/commit steps are imaged at six hook points, plus every torn-write prefix (clean cut at every byte; garbage-filled to the new length at the ends and every 8th byte) of every file that grew in place between two steps; each image goes through Engine.cleanup and TSMReader reopen. non-trivial = A: ≥2 keys or ≥2 blocks; B: the delete in flight hides a live point; distinct = hash of keys, block ranges, deletes")
	r.Assume("crash = process death: bytes handed to the kernel survive; the last write may be torn; rename is atomic",
		"a restarted shard runs Engine.cleanup (removal of *.tmp) before it opens TSM files; crash images are reopened the same way",
		"whether a key whose points are all deleted by several separate ranges is still listed by the index is unspecified",
		"ContainsValue may answer true for a time inside a block's range that holds no point (documented)")
	if !verifhook.Enabled {
		r.Inconclusive("verifhook not compiled in")
		return
	}
	base, err := tfScratch("c08-")
	if err != nil {
		t.Fatal(err)
	}
	defer os.RemoveAll(base)
	lim := &c08Limiter{r: r, seen: map[string]int{}}
	var ctr uint64
	na := r.N(300, 8000)
	t0 := time.Now()
	for i := 0; i < na; i++ {
		c08FileCase(r, lim, i, base, &ctr)
	}
	r.Extra("wall_part_a_s", time.Since(t0).Seconds()) // information only
	nb := r.N(24, 400)
	t0 = time.Now()
	for i := 0; i < nb; i++ {
		c08CrashCase(r, lim, i, base, &ctr)
	}
	r.Extra("wall_part_b_s", time.Since(t0).Seconds())
	r.Extra("crash_images", r.EventCount("crash_images_reopened"))
	hits := map[string]int64{}
	for _, h := range c08Hooks {
		hits[h] = r.EventCount("hook_" + h)
	}
	r.Extra("hook_hits", hits)
}
