package g_tsmfile

// C06 — multi-file block reads return the exact newest-wins merge (DESIGN §5 C06).
//
// Real TSM files (real writer, real tombstone files / real TSMFile.DeleteRange) holding one
// key are opened in a real FileStore; for every seek time of the grid ±1, both directions and
// both block forms the real KeyCursor is drained the way the engine's cursors drain it
// (Read<T>Block, then Next + Read<T>Block until an empty block). The oracle is an independent
// model: per file, the points that no tombstone of that file covers; across files the newest
// file holding a live timestamp wins; filtered by seek time and direction.

import (
	"context"
	"fmt"
	"math"
	"os"
	"sort"
	"strings"
	"testing"

	"github.com/influxdata/influxdb/v2/tsdb"
	"github.com/influxdata/influxdb/v2/tsdb/engine/tsm1"

	"verifharness/vkit"
)

const c06Slots = 24
const c06Key = "cpu,host=a b#!~#value"

type c06Block struct {
	Slots []int `json:"slots"` // sorted, distinct; first and last are the block's time range
}

type c06File struct {
	Blocks   []c06Block `json:"blocks"` // disjoint, ordered
	Tombs    []tfTomb   `json:"tombstones,omitempty"`
	TombMode string     `json:"tomb_mode,omitempty"` // "tombstone_file" | "reader_delete"
	Points   []tfPt     `json:"points"`              // what the file holds (before tombstones)
	vals     [][]tsm1.Value
}

type c06Layout struct {
	Type  string `json:"type"`
	typ   int
	Off   int64     `json:"grid_offset"`
	Step  int64     `json:"grid_step"`
	Files []c06File `json:"files"`
}

func (l *c06Layout) ts(slot int) int64 { return l.Off + l.Step*int64(slot) }

func (l *c06Layout) canonical() string {
	var b strings.Builder
	fmt.Fprintf(&b, "%s|%d|%d", l.Type, l.Off, l.Step)
	for _, f := range l.Files {
		b.WriteString("|F")
		for _, blk := range f.Blocks {
			fmt.Fprintf(&b, "%v", blk.Slots)
		}
		for _, t := range f.Tombs {
			fmt.Fprintf(&b, "T%d:%d", t.Min, t.Max)
		}
		b.WriteString(f.TombMode)
	}
	return b.String()
}

// nontrivial: some pair of blocks of two different files overlap in time.
func (l *c06Layout) nontrivial() bool {
	for i := range l.Files {
		for j := i + 1; j < len(l.Files); j++ {
			for _, a := range l.Files[i].Blocks {
				for _, b := range l.Files[j].Blocks {
					if a.Slots[0] <= b.Slots[len(b.Slots)-1] && b.Slots[0] <= a.Slots[len(a.Slots)-1] {
						return true
					}
				}
			}
		}
	}
	return false
}

func c06Interval(rg *vkit.Rand, lo, hi int, density int) c06Block {
	// endpoints always present; inner slots with the given density (0: none, 1: ~1/4, 2: ~1/2, 3: all)
	s := []int{lo}
	for x := lo + 1; x < hi; x++ {
		switch density {
		case 0:
		case 1:
			if rg.Chance(1, 4) {
				s = append(s, x)
			}
		case 2:
			if rg.Bool() {
				s = append(s, x)
			}
		default:
			s = append(s, x)
		}
	}
	if hi > lo {
		s = append(s, hi)
	}
	return c06Block{Slots: s}
}

func c06Clamp(x int) int {
	if x < 0 {
		return 0
	}
	if x > c06Slots-1 {
		return c06Slots - 1
	}
	return x
}

// c06GenFile builds the blocks of one file; with earlier files present one block is derived
// from an earlier block so that every overlap shape occurs often: identical range, nested,
// superset, touching on one timestamp, adjacent, interleaved points.
func c06GenFile(rg *vkit.Rand, earlier []c06File) []c06Block {
	var cand []c06Block
	if len(earlier) > 0 && rg.Chance(3, 4) {
		ef := earlier[rg.Intn(len(earlier))]
		eb := ef.Blocks[rg.Intn(len(ef.Blocks))]
		lo, hi := eb.Slots[0], eb.Slots[len(eb.Slots)-1]
		switch rg.Intn(8) {
		case 0: // identical range, own inner points
			cand = append(cand, c06Interval(rg, lo, hi, rg.Intn(4)))
		case 1: // identical points
			cand = append(cand, c06Block{Slots: append([]int(nil), eb.Slots...)})
		case 2: // nested
			if hi-lo >= 2 {
				a := rg.Range(lo+1, hi-1)
				b := rg.Range(a, hi-1)
				cand = append(cand, c06Interval(rg, a, b, rg.Intn(4)))
			}
		case 3: // superset
			cand = append(cand, c06Interval(rg, c06Clamp(lo-rg.Range(1, 3)), c06Clamp(hi+rg.Range(1, 3)), rg.Intn(4)))
		case 4: // touching: shares exactly the boundary timestamp
			if rg.Bool() {
				cand = append(cand, c06Interval(rg, hi, c06Clamp(hi+rg.Range(0, 4)), rg.Intn(4)))
			} else {
				cand = append(cand, c06Interval(rg, c06Clamp(lo-rg.Range(0, 4)), lo, rg.Intn(4)))
			}
		case 5: // adjacent: next slot, no shared timestamp
			if hi+1 < c06Slots {
				cand = append(cand, c06Interval(rg, hi+1, c06Clamp(hi+1+rg.Range(0, 4)), rg.Intn(4)))
			} else if lo > 0 {
				cand = append(cand, c06Interval(rg, c06Clamp(lo-1-rg.Range(0, 4)), lo-1, rg.Intn(4)))
			}
		case 6: // interleaved: same range, the slots the earlier block does not hold
			have := map[int]bool{}
			for _, s := range eb.Slots {
				have[s] = true
			}
			var s []int
			for x := lo; x <= hi; x++ {
				if !have[x] {
					s = append(s, x)
				}
			}
			if len(s) > 0 {
				cand = append(cand, c06Block{Slots: s})
			}
		default: // partial overlap on one side
			sh := rg.Range(1, 4)
			if rg.Bool() {
				cand = append(cand, c06Interval(rg, c06Clamp(lo+sh), c06Clamp(hi+sh), rg.Intn(4)))
			} else {
				cand = append(cand, c06Interval(rg, c06Clamp(lo-sh), c06Clamp(hi-sh), rg.Intn(4)))
			}
		}
	}
	want := rg.Range(1, 4)
	for tries := 0; len(cand) < want+2 && tries < 12; tries++ {
		a := rg.Intn(c06Slots)
		b := c06Clamp(a + []int{0, 0, 1, 2, 3, 5, 8, 23}[rg.Intn(8)])
		cand = append(cand, c06Interval(rg, a, b, rg.Intn(4)))
	}
	// keep candidates that do not overlap an already chosen block of this file
	var out []c06Block
	for _, c := range cand {
		if len(out) >= want {
			break
		}
		ok := true
		for _, o := range out {
			if c.Slots[0] <= o.Slots[len(o.Slots)-1] && o.Slots[0] <= c.Slots[len(c.Slots)-1] {
				ok = false
				break
			}
		}
		if ok {
			out = append(out, c)
		}
	}
	sort.Slice(out, func(i, j int) bool { return out[i].Slots[0] < out[j].Slots[0] })
	return out
}

func c06GenTombs(rg *vkit.Rand, l *c06Layout, f *c06File) {
	n := []int{0, 0, 1, 1, 2}[rg.Intn(5)]
	if n == 0 {
		return
	}
	f.TombMode = vkit.Pick(rg, []string{"tombstone_file", "reader_delete"})
	fmin, fmax := l.ts(f.Blocks[0].Slots[0]), l.ts(f.Blocks[len(f.Blocks)-1].Slots[len(f.Blocks[len(f.Blocks)-1].Slots)-1])
	jit := func() int64 { return int64(rg.Intn(3) - 1) }
	for i := 0; i < n; i++ {
		var lo, hi int64
		switch rg.Intn(9) {
		case 0: // exactly one block
			b := f.Blocks[rg.Intn(len(f.Blocks))]
			lo, hi = l.ts(b.Slots[0]), l.ts(b.Slots[len(b.Slots)-1])
		case 1: // everything the file holds
			lo, hi = fmin, fmax
		case 2: // full key
			lo, hi = math.MinInt64, math.MaxInt64
		case 3: // one point of the file
			b := f.Blocks[rg.Intn(len(f.Blocks))]
			lo = l.ts(b.Slots[rg.Intn(len(b.Slots))])
			hi = lo
		case 4: // between two grid points: hides nothing
			lo = l.ts(rg.Intn(c06Slots)) + 1
			hi = lo
		case 5: // open below
			lo, hi = math.MinInt64, l.ts(rg.Intn(c06Slots))+jit()
		case 6: // open above
			lo, hi = l.ts(rg.Intn(c06Slots))+jit(), math.MaxInt64
		default: // cut
			a := rg.Intn(c06Slots)
			b := c06Clamp(a + rg.Intn(8))
			lo, hi = l.ts(a)+jit(), l.ts(b)+jit()
			if lo > hi {
				lo, hi = hi, lo
			}
		}
		f.Tombs = append(f.Tombs, tfTomb{Keys: []string{c06Key}, Min: lo, Max: hi})
	}
}

func c06Gen(rg *vkit.Rand, caseNo int, ctr *uint64) *c06Layout {
	l := &c06Layout{typ: caseNo % 5}
	l.Type = tfTypeNames[l.typ]
	l.Step = []int64{3, 10, 1000000007}[rg.Intn(3)]
	switch rg.Intn(6) {
	case 0:
		l.Off = 0
	case 1:
		l.Off = -l.Step*11 - 1 // straddles zero
	case 2:
		l.Off = 1600000000000000000
	case 3:
		l.Off = math.MinInt64 + 2 // models.MinNanoTime is the first slot
	case 4:
		l.Off = math.MaxInt64 - 1 - l.Step*(c06Slots-1) // models.MaxNanoTime is the last slot
	default:
		l.Off = -l.Step * (c06Slots + 5) // all negative
	}
	nf := rg.Range(2, 5)
	for i := 0; i < nf; i++ {
		f := c06File{Blocks: c06GenFile(rg, l.Files)}
		c06GenTombs(rg, l, &f)
		l.Files = append(l.Files, f)
	}
	c06Fill(l, ctr)
	return l
}

// c06Fill gives every slot of every block its own write id (older files get smaller ids).
func c06Fill(l *c06Layout, ctr *uint64) {
	for i := range l.Files {
		f := &l.Files[i]
		f.Points, f.vals = nil, nil
		for _, b := range f.Blocks {
			var vals []tsm1.Value
			for _, s := range b.Slots {
				*ctr++
				v := tfMk(l.typ, l.ts(s), *ctr)
				vals = append(vals, v)
				f.Points = append(f.Points, tfCanon(v))
			}
			f.vals = append(f.vals, vals)
		}
	}
}

// c06Model: newest file holding a live timestamp wins.
func c06Model(l *c06Layout) []tfPt {
	m := map[int64]string{}
	for _, f := range l.Files { // oldest → newest
		for _, p := range f.Points {
			dead := false
			for _, t := range f.Tombs {
				if t.covers(c06Key, p.T) {
					dead = true
					break
				}
			}
			if !dead {
				m[p.T] = p.V
			}
		}
	}
	out := make([]tfPt, 0, len(m))
	for t, v := range m {
		out = append(out, tfPt{t, v})
	}
	sort.Slice(out, func(i, j int) bool { return out[i].T < out[j].T })
	return out
}

func c06Expect(model []tfPt, seek int64, asc bool) []tfPt {
	var out []tfPt
	if asc {
		for _, p := range model {
			if p.T >= seek {
				out = append(out, p)
			}
		}
		return out
	}
	for i := len(model) - 1; i >= 0; i-- {
		if model[i].T <= seek {
			out = append(out, model[i])
		}
	}
	return out
}

// c06Materialize writes the layout as real files and opens a real FileStore over them.
func c06Materialize(dir string, l *c06Layout) (*tsm1.FileStore, error) {
	for i, f := range l.Files {
		kb := tfKeyBlocks{Key: c06Key, Typ: l.typ, Blocks: f.vals}
		path := tfFileName(dir, i+1, 1)
		if err := tfWriteTSM(path, []tfKeyBlocks{kb}); err != nil {
			return nil, err
		}
		if f.TombMode == "tombstone_file" {
			if err := tfWriteTombstones(path, f.Tombs, true); err != nil {
				return nil, err
			}
		}
	}
	fs, err := tfOpenFileStore(dir)
	if err != nil {
		return nil, err
	}
	files := fs.Files() // sorted by path = generation order
	if len(files) != len(l.Files) {
		fs.Close()
		return nil, fmt.Errorf("file store holds %d files, wrote %d", len(files), len(l.Files))
	}
	for i, f := range l.Files {
		if f.TombMode != "reader_delete" {
			continue
		}
		for _, t := range f.Tombs {
			var err error
			if t.Min == math.MinInt64 && t.Max == math.MaxInt64 && i%2 == 0 {
				err = files[i].Delete(tfKeysBytes(t.Keys))
			} else {
				err = files[i].DeleteRange(tfKeysBytes(t.Keys), t.Min, t.Max)
			}
			if err != nil {
				fs.Close()
				return nil, fmt.Errorf("delete on file %d: %w", i, err)
			}
		}
	}
	return fs, nil
}

// c06Drain reads a KeyCursor to exhaustion the way the engine's cursors do. Each returned
// block is ascending; a descending read concatenates the blocks reversed. limit bounds the
// number of reads (a cursor that keeps returning data is reported, not waited for).
func c06Drain(fs *tsm1.FileStore, typ int, seek int64, asc, array bool, limit int) (pts []tfPt, blocks int, err error, runaway bool) {
	c := fs.KeyCursor(context.Background(), []byte(c06Key), seek, asc)
	defer c.Close()
	read := c06Reader(c, typ, array)
	for {
		blk, err := read()
		if err != nil {
			return pts, blocks, err, false
		}
		if len(blk) == 0 {
			return pts, blocks, nil, false
		}
		blocks++
		if asc {
			pts = append(pts, blk...)
		} else {
			for i := len(blk) - 1; i >= 0; i-- {
				pts = append(pts, blk[i])
			}
		}
		if blocks > limit {
			return pts, blocks, nil, true
		}
		c.Next()
	}
}

func c06Reader(c *tsm1.KeyCursor, typ int, array bool) func() ([]tfPt, error) {
	conv := func(n int, at func(i int) (int64, interface{})) []tfPt {
		out := make([]tfPt, n)
		for i := 0; i < n; i++ {
			t, v := at(i)
			out[i] = tfPt{t, tfCanonRaw(v)}
		}
		return out
	}
	if array {
		switch typ {
		case tfFloat:
			buf := &tsdb.FloatArray{}
			return func() ([]tfPt, error) {
				a, err := c.ReadFloatArrayBlock(buf)
				if err != nil || a == nil {
					return nil, err
				}
				return conv(a.Len(), func(i int) (int64, interface{}) { return a.Timestamps[i], a.Values[i] }), nil
			}
		case tfInteger:
			buf := &tsdb.IntegerArray{}
			return func() ([]tfPt, error) {
				a, err := c.ReadIntegerArrayBlock(buf)
				if err != nil || a == nil {
					return nil, err
				}
				return conv(a.Len(), func(i int) (int64, interface{}) { return a.Timestamps[i], a.Values[i] }), nil
			}
		case tfUnsigned:
			buf := &tsdb.UnsignedArray{}
			return func() ([]tfPt, error) {
				a, err := c.ReadUnsignedArrayBlock(buf)
				if err != nil || a == nil {
					return nil, err
				}
				return conv(a.Len(), func(i int) (int64, interface{}) { return a.Timestamps[i], a.Values[i] }), nil
			}
		case tfBoolean:
			buf := &tsdb.BooleanArray{}
			return func() ([]tfPt, error) {
				a, err := c.ReadBooleanArrayBlock(buf)
				if err != nil || a == nil {
					return nil, err
				}
				return conv(a.Len(), func(i int) (int64, interface{}) { return a.Timestamps[i], a.Values[i] }), nil
			}
		default:
			buf := &tsdb.StringArray{}
			return func() ([]tfPt, error) {
				a, err := c.ReadStringArrayBlock(buf)
				if err != nil || a == nil {
					return nil, err
				}
				return conv(a.Len(), func(i int) (int64, interface{}) { return a.Timestamps[i], a.Values[i] }), nil
			}
		}
	}
	switch typ {
	case tfFloat:
		var buf []tsm1.FloatValue
		return func() ([]tfPt, error) {
			v, err := c.ReadFloatBlock(&buf)
			return conv(len(v), func(i int) (int64, interface{}) { return v[i].UnixNano(), v[i].Value() }), err
		}
	case tfInteger:
		var buf []tsm1.IntegerValue
		return func() ([]tfPt, error) {
			v, err := c.ReadIntegerBlock(&buf)
			return conv(len(v), func(i int) (int64, interface{}) { return v[i].UnixNano(), v[i].Value() }), err
		}
	case tfUnsigned:
		var buf []tsm1.UnsignedValue
		return func() ([]tfPt, error) {
			v, err := c.ReadUnsignedBlock(&buf)
			return conv(len(v), func(i int) (int64, interface{}) { return v[i].UnixNano(), v[i].Value() }), err
		}
	case tfBoolean:
		var buf []tsm1.BooleanValue
		return func() ([]tfPt, error) {
			v, err := c.ReadBooleanBlock(&buf)
			return conv(len(v), func(i int) (int64, interface{}) { return v[i].UnixNano(), v[i].Value() }), err
		}
	default:
		var buf []tsm1.StringValue
		return func() ([]tfPt, error) {
			v, err := c.ReadStringBlock(&buf)
			return conv(len(v), func(i int) (int64, interface{}) { return v[i].UnixNano(), v[i].Value() }), err
		}
	}
}

// c06Diff names the first kind of disagreement between the expected and the observed
// sequence, in the vocabulary of the property statement.
func c06Diff(l *c06Layout, exp, got []tfPt, seek int64, asc bool) (class, detail string) {
	seen := map[int64]int{}
	for _, p := range got {
		seen[p.T]++
		if seen[p.T] == 2 {
			return "duplicate_point", fmt.Sprintf("t=%d returned more than once", p.T)
		}
	}
	for i := 1; i < len(got); i++ {
		if (asc && got[i].T <= got[i-1].T) || (!asc && got[i].T >= got[i-1].T) {
			return "out_of_order", fmt.Sprintf("t=%d returned after t=%d", got[i].T, got[i-1].T)
		}
	}
	want := map[int64]string{}
	for _, p := range exp {
		want[p.T] = p.V
	}
	for _, p := range got {
		v, ok := want[p.T]
		if !ok {
			why := "never written"
			if (asc && p.T < seek) || (!asc && p.T > seek) {
				why = "on the wrong side of the seek time"
			} else {
				for _, f := range l.Files {
					for _, q := range f.Points {
						if q.T == p.T {
							why = "tombstoned in every file that holds it"
						}
					}
				}
			}
			return "extra_point", fmt.Sprintf("t=%d returned but it is %s", p.T, why)
		}
		if v != p.V {
			src := -1
			for i, f := range l.Files {
				for _, q := range f.Points {
					if q.T == p.T && q.V == p.V {
						src = i
					}
				}
			}
			return "stale_value", fmt.Sprintf("t=%d returned %s (written by file #%d) but the newest live value is %s", p.T, p.V, src, v)
		}
	}
	for _, p := range exp {
		if seen[p.T] == 0 {
			return "missing_point", fmt.Sprintf("live point t=%d (%s) not returned", p.T, p.V)
		}
	}
	return "", ""
}

type c06Witness struct {
	Layout    *c06Layout `json:"layout"`
	Seek      string     `json:"seek"`
	Direction string     `json:"direction"`
	Form      string     `json:"form"`
	Detail    string     `json:"detail"`
	Expected  []tfPt     `json:"expected"`
	Got       []tfPt     `json:"got"`
	Blocks    int        `json:"blocks_returned"`
	Err       string     `json:"err,omitempty"`
	Minimal   *c06Min    `json:"minimised,omitempty"`
}

// c06Min is the layout after greedy deletion of files, blocks, points and tombstones that
// keeps a violation of the same class alive.
type c06Min struct {
	Layout    *c06Layout `json:"layout"`
	Seek      string     `json:"seek"`
	Direction string     `json:"direction"`
	Form      string     `json:"form"`
	Detail    string     `json:"detail"`
	Expected  []tfPt     `json:"expected"`
	Got       []tfPt     `json:"got"`
}

type c06Mismatch struct {
	class   string
	feat    map[string]string
	extreme bool // seek at the end of the int64 range in the cursor's direction, nothing returned
	w       c06Witness
}

func c06Seeks(l *c06Layout) []int64 {
	// every grid time and ±1, far outside, the extremes
	seekSet := map[int64]bool{math.MinInt64: true, math.MaxInt64: true}
	for s := 0; s < c06Slots; s++ {
		g := l.ts(s)
		seekSet[g-1], seekSet[g], seekSet[g+1] = true, true, true
	}
	if l.Off > math.MinInt64+3*l.Step {
		seekSet[l.Off-2*l.Step] = true
	}
	if top := l.ts(c06Slots - 1); top < math.MaxInt64-3*l.Step {
		seekSet[top+2*l.Step] = true
	}
	seeks := make([]int64, 0, len(seekSet))
	for s := range seekSet {
		seeks = append(seeks, s)
	}
	sort.Slice(seeks, func(a, b int) bool { return seeks[a] < seeks[b] })
	return seeks
}

// c06Scan drains the cursor for every (seek, direction, form) and reports each disagreement
// with the model. r may be nil (minimisation re-runs); stopAt ends the scan at the first
// mismatch of that class.
func c06Scan(r *vkit.Run, l *c06Layout, fs *tsm1.FileStore, stopAt string) []c06Mismatch {
	model := c06Model(l)
	nloc := 0
	for _, f := range l.Files {
		nloc += len(f.Blocks)
	}
	limit := 4*nloc + 8
	var out []c06Mismatch
	for _, seek := range c06Seeks(l) {
		for _, asc := range []bool{true, false} {
			exp := c06Expect(model, seek, asc)
			for _, array := range []bool{false, true} {
				got, blocks, rerr, runaway := c06Drain(fs, l.typ, seek, asc, array, limit)
				dir := map[bool]string{true: "asc", false: "desc"}[asc]
				form := map[bool]string{false: "scalar", true: "array"}[array]
				if r != nil {
					r.Event("cursor_reads_"+dir+"_"+form, 1)
					r.Event("points_compared", int64(len(exp)))
					if blocks > 1 {
						r.Event("reads_spanning_several_blocks", 1)
					}
				}
				w := c06Witness{Layout: l, Seek: tfTimeName(seek), Direction: dir, Form: form, Expected: tfTrimPts(exp, 60), Got: tfTrimPts(got, 60), Blocks: blocks}
				seekClass := "grid"
				if seek == math.MinInt64 || seek == math.MaxInt64 {
					seekClass = "extreme"
				}
				feat := map[string]string{"direction": dir, "form": form, "type": l.Type, "seek_class": seekClass}
				m := c06Mismatch{feat: feat}
				switch {
				case rerr != nil:
					w.Err = rerr.Error()
					m.class = "read_error"
				case runaway:
					w.Detail = fmt.Sprintf("cursor still returned data after %d reads over %d blocks", blocks, nloc)
					m.class = "cursor_does_not_terminate"
				default:
					m.class, w.Detail = c06Diff(l, exp, got, seek, asc)
				}
				if m.class == "" {
					continue
				}
				if ((asc && seek == math.MinInt64) || (!asc && seek == math.MaxInt64)) && rerr == nil && len(got) == 0 && len(exp) > 0 {
					m.extreme = true
					m.class = "extreme_seek_returns_nothing"
					m.feat = map[string]string{"direction": dir, "seek": tfTimeName(seek), "form": form}
				}
				m.w = w
				out = append(out, m)
				if stopAt != "" && m.class == stopAt {
					return out
				}
			}
		}
	}
	return out
}

// c06OrderCycle says whether the specified order of block locations (blocks that overlap in
// time: older file first; otherwise by start time when ascending, end time when descending)
// is not transitive on this layout's blocks, i.e. no sequence can satisfy it. It only labels
// a witness (feature order_cycle); it decides nothing.
func c06OrderCycle(l *c06Layout, asc bool) bool {
	type loc struct{ file, lo, hi int }
	var locs []loc
	for i, f := range l.Files {
		for _, b := range f.Blocks {
			locs = append(locs, loc{i, b.Slots[0], b.Slots[len(b.Slots)-1]})
		}
	}
	less := func(a, b loc) bool {
		if a.lo <= b.hi && b.lo <= a.hi {
			return a.file < b.file
		}
		if asc {
			return a.lo < b.lo
		}
		return a.hi < b.hi
	}
	for _, a := range locs {
		for _, b := range locs {
			if !less(a, b) {
				continue
			}
			for _, c := range locs {
				if less(b, c) && !less(a, c) && c != a {
					return true
				}
			}
		}
	}
	return false
}

// c06Try materialises a layout in a scratch directory and looks for a mismatch of class.
func c06Try(base string, l *c06Layout, class string) *c06Mismatch {
	dir, err := os.MkdirTemp(base, "m")
	if err != nil {
		return nil
	}
	defer os.RemoveAll(dir)
	var ctr uint64
	c06Fill(l, &ctr)
	fs, err := c06Materialize(dir, l)
	if err != nil {
		return nil
	}
	defer fs.Close()
	ms := c06Scan(nil, l, fs, class)
	for i := range ms {
		if ms[i].class == class {
			return &ms[i]
		}
	}
	return nil
}

func c06Clone(l *c06Layout) *c06Layout {
	c := &c06Layout{Type: l.Type, typ: l.typ, Off: l.Off, Step: l.Step}
	for _, f := range l.Files {
		nf := c06File{TombMode: f.TombMode, Tombs: append([]tfTomb(nil), f.Tombs...)}
		for _, b := range f.Blocks {
			nf.Blocks = append(nf.Blocks, c06Block{Slots: append([]int(nil), b.Slots...)})
		}
		c.Files = append(c.Files, nf)
	}
	return c
}

// c06Minimise: greedy delta debugging on the layout (rule 7: minimise before triage).
func c06Minimise(base string, l *c06Layout, class string) *c06Min {
	cur := c06Clone(l)
	best := c06Try(base, cur, class)
	if best == nil {
		return nil
	}
	for changed := true; changed; {
		changed = false
		try := func(cand *c06Layout) bool {
			if len(cand.Files) == 0 {
				return false
			}
			if m := c06Try(base, cand, class); m != nil {
				cur, best, changed = cand, m, true
				return true
			}
			return false
		}
		for i := 0; i < len(cur.Files); i++ { // drop a file
			c := c06Clone(cur)
			c.Files = append(c.Files[:i], c.Files[i+1:]...)
			if try(c) {
				i--
			}
		}
		for i := 0; i < len(cur.Files); i++ { // drop a tombstone
			for j := 0; j < len(cur.Files[i].Tombs); j++ {
				c := c06Clone(cur)
				c.Files[i].Tombs = append(c.Files[i].Tombs[:j], c.Files[i].Tombs[j+1:]...)
				if len(c.Files[i].Tombs) == 0 {
					c.Files[i].TombMode = ""
				}
				if try(c) {
					j--
				}
			}
		}
		for i := 0; i < len(cur.Files); i++ { // drop a block
			for j := 0; j < len(cur.Files[i].Blocks) && len(cur.Files[i].Blocks) > 1; j++ {
				c := c06Clone(cur)
				c.Files[i].Blocks = append(c.Files[i].Blocks[:j], c.Files[i].Blocks[j+1:]...)
				if try(c) {
					j--
				}
			}
		}
		for i := 0; i < len(cur.Files); i++ { // drop a point
			for j := 0; j < len(cur.Files[i].Blocks); j++ {
				for k := 0; k < len(cur.Files[i].Blocks[j].Slots) && len(cur.Files[i].Blocks[j].Slots) > 1; k++ {
					c := c06Clone(cur)
					s := c.Files[i].Blocks[j].Slots
					c.Files[i].Blocks[j].Slots = append(s[:k], s[k+1:]...)
					if try(c) {
						k--
					}
				}
			}
		}
	}
	return &c06Min{Layout: cur, Seek: best.w.Seek, Direction: best.w.Direction, Form: best.w.Form, Detail: best.w.Detail, Expected: best.w.Expected, Got: best.w.Got}
}

func TestC06(t *testing.T) {
	r := vkit.Start(t, "C06", "exploration")
	defer r.Finish()
	r.Rule("case = layout of one key over 2–5 real TSM files (1–4 disjoint blocks per file on a 24-slot grid, one block usually derived from an earlier file's block: identical/nested/superset/touching/adjacent/interleaved/shifted), 0–2 tombstone ranges per file (tombstone file before open, or DeleteRange/Delete on the open TSMFile), one of five value types; every layout is read at every grid time and ±1, far below/above, MinInt64 and MaxInt64, ascending and descending, Read<T>Block and Read<T>ArrayBlock; non-trivial = blocks of two different files overlap in time; distinct = hash of (type, grid, blocks, tombstones)")
	r.Assume("a tombstone belongs to the TSM file it is stored with: it hides that file's points only (an older file's point at the same time stays live)",
		"blocks of one key inside one file do not overlap (what the engine's writers produce); overlap is across files")
	n := r.N(600, 20000)
	base, err := tfScratch("c06-")
	if err != nil {
		t.Fatal(err)
	}
	defer os.RemoveAll(base)

	reported := map[string]int{}
	var ctr uint64
	for i := 0; i < n; i++ {
		rg := r.Rand(i)
		l := c06Gen(rg, i, &ctr)
		dir, err := os.MkdirTemp(base, "l")
		if err != nil {
			t.Fatal(err)
		}
		fs, err := c06Materialize(dir, l)
		if err != nil {
			r.Violation("setup_failed", map[string]string{"step": "materialize"}, map[string]any{"layout": l, "err": err.Error()})
			os.RemoveAll(dir)
			continue
		}
		nt := l.nontrivial()
		r.Case(l.canonical(), nt)
		model := c06Model(l)
		if nt && r.WantSample() && i%7 == 0 {
			r.Sample(map[string]any{"case": i, "layout": l, "merged_live_points": len(model)})
		}
		if len(model) == 0 {
			r.Event("layouts_with_no_live_point", 1)
		}
		for _, f := range l.Files {
			if len(f.Tombs) > 0 {
				r.Event("files_with_tombstones_"+f.TombMode, 1)
			}
		}
		layoutHit := map[string]bool{}
		for _, m := range c06Scan(r, l, fs, "") {
			r.Event("mismatch_"+m.class+"_"+m.feat["direction"], 1)
			k := m.class + "/" + m.feat["direction"] + "/" + m.feat["form"]
			if m.extreme {
				// the seek time at the end of the int64 range in the cursor's own direction: its
				// own class (findings/C06-extreme-seek.md); one witness per (direction, form) and
				// run, every occurrence counted in monitor_events
				if reported[k] == 0 {
					r.Violation(m.class, m.feat, m.w)
				}
				reported[k]++
				continue
			}
			if m.class == "stale_value" || m.class == "out_of_order" || m.class == "duplicate_point" || m.class == "missing_point" {
				m.feat["order_cycle"] = fmt.Sprint(c06OrderCycle(l, m.feat["direction"] == "asc"))
				nb := 0
				for _, f := range l.Files {
					nb += len(f.Blocks)
				}
				m.feat["layout_blocks"] = map[bool]string{true: "gt12", false: "le12"}[nb > 12]
			}
			// one witness per (layout, class, direction, form): neighbouring seek times repeat it
			if layoutHit[k] {
				r.Event("mismatch_repeats_at_other_seeks", 1)
				continue
			}
			layoutHit[k] = true
			if !layoutHit["layout"] {
				layoutHit["layout"] = true
				r.Event("layouts_with_mismatch", 1)
			}
			if reported[k] < 3 {
				m.w.Minimal = c06Minimise(base, l, m.class)
			}
			reported[k]++
			r.Violation(m.class, m.feat, m.w)
		}
		fs.Close()
		os.RemoveAll(dir)
	}
}
