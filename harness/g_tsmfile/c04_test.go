package g_tsmfile

// C04 — compaction preserves the logical content of TSM files (DESIGN §5 C04).
//
// Generated sets of small real TSM files (real writer, real tombstone files, real FileStore)
// are compacted with the real Compactor (CompactFull, CompactFast; WriteSnapshot from a real
// Cache). The outputs are read back with TSMReader (BlockIterator + DecodeBlock, ReadAll) and
// compared with an independent model: per file the points no tombstone of that file covers,
// across files the later file wins per timestamp. A structural scan checks the rest of the
// statement: keys sorted, blocks of one key ordered and disjoint in time, no block with more
// points than requested.

import (
	"fmt"
	"math"
	"os"
	"sort"
	"strings"
	"testing"

	"github.com/influxdata/influxdb/v2/tsdb"
	"github.com/influxdata/influxdb/v2/tsdb/engine/tsm1"
	"go.uber.org/zap"

	"verifharness/vkit"
)

var c04KeyPool = []string{
	"cpu,host=a#!~#usage",
	"cpu,host=a b#!~#usage",
	"cpu,host=a\\,b#!~#v",
	"cpu,host=b#!~#usage",
	"mem#!~#é",
	"mem,x=\"q\"#!~#free",
	"zz#!~#last",
}

type c04Block struct {
	Pts []tfPt `json:"pts"`
}

type c04FileKey struct {
	Key    string     `json:"key"`
	Blocks []c04Block `json:"blocks"`
	vals   [][]tsm1.Value
}

type c04File struct {
	Name  string       `json:"name"`
	Keys  []c04FileKey `json:"keys"`
	Tombs []tfTomb     `json:"tombstones,omitempty"`
}

type c04Case struct {
	PPB           int               `json:"points_per_block"`
	Types         map[string]string `json:"key_types"`
	types         map[string]int
	Files         []c04File `json:"files"`
	InfileOverlap bool      `json:"infile_overlap"` // some file holds overlapping blocks of one key
	Off           int64     `json:"grid_offset"`
	Step          int64     `json:"grid_step"`
	Slots         int       `json:"grid_slots"`
}

func (c *c04Case) ts(slot int) int64 { return c.Off + c.Step*int64(slot) }

func (c *c04Case) canonical() string {
	var b strings.Builder
	fmt.Fprintf(&b, "%d|%d|%d|%v", c.PPB, c.Off, c.Step, c.Types)
	for _, f := range c.Files {
		b.WriteString("|F" + f.Name)
		for _, k := range f.Keys {
			b.WriteString(k.Key)
			for _, blk := range k.Blocks {
				b.WriteString("[")
				for _, p := range blk.Pts {
					fmt.Fprintf(&b, "%d,", p.T)
				}
				b.WriteString("]")
			}
		}
		for _, t := range f.Tombs {
			fmt.Fprintf(&b, "T%v:%d:%d", t.Keys, t.Min, t.Max)
		}
	}
	return b.String()
}

func c04SortedSubset(rg *vkit.Rand, lo, hi, n int) []int {
	if n > hi-lo+1 {
		n = hi - lo + 1
	}
	p := rg.Perm(hi - lo + 1)[:n]
	sort.Ints(p)
	for i := range p {
		p[i] += lo
	}
	return p
}

func c04BlockSize(rg *vkit.Rand, ppb int) int {
	if ppb >= 1000 {
		return []int{1, 2, 3, 5, 17, 400, 999, 1000, 1000}[rg.Intn(9)]
	}
	switch rg.Intn(4) {
	case 0:
		return ppb // full block
	case 1:
		return 1
	default:
		return rg.Range(1, ppb)
	}
}

func c04Gen(rg *vkit.Rand, caseNo int, ctr *uint64) *c04Case {
	c := &c04Case{PPB: []int{1, 2, 3, 7, 1000}[caseNo%5], Types: map[string]string{}, types: map[string]int{}}
	c.Step = []int64{1, 10, 1000000000}[rg.Intn(3)]
	c.Slots = 32
	if c.PPB >= 1000 {
		c.Slots = 4000
	}
	switch rg.Intn(5) {
	case 0:
		c.Off = 0
	case 1:
		c.Off = -c.Step * int64(c.Slots/2) // straddles zero
	case 2:
		c.Off = 1600000000000000000
	case 3:
		c.Off = math.MinInt64 + 2 // models.MinNanoTime
	default:
		c.Off = -c.Step * int64(c.Slots+3) // all negative
	}
	nk := rg.Range(1, 5)
	keys := append([]string(nil), c04KeyPool...)
	for i := len(keys) - 1; i > 0; i-- {
		j := rg.Intn(i + 1)
		keys[i], keys[j] = keys[j], keys[i]
	}
	keys = keys[:nk]
	sort.Strings(keys)
	for _, k := range keys {
		c.types[k] = rg.Intn(5)
		c.Types[k] = tfTypeNames[c.types[k]]
	}
	// Overlapping blocks of one key INSIDE one file are not generated: such a file is not a
	// valid TSM file. The writer orders a key's index entries by start time only and the reader
	// takes the key's time range from the first and last entry (reader.go, indirectIndex.
	// DeleteRange), so a tombstone range after the last entry's end is dropped as "outside the
	// key" although an earlier, longer block reaches into it. The first witness of the earlier
	// version of this check (which did generate them, as DESIGN §5 C04 suggests) was exactly
	// that; the statement is about TSM files the engine can produce.
	overlapMode := false
	nf := rg.Range(2, 6)
	for fi := 0; fi < nf; fi++ {
		f := c04File{}
		for _, k := range keys {
			if len(keys) > 1 && rg.Chance(1, 4) {
				continue // key absent from this file
			}
			fk := c04FileKey{Key: k}
			var blocks [][]int // slots per block
			// duplicate blocks: copy the timestamps of a block of an earlier file
			if fi > 0 && rg.Chance(1, 3) {
				pf := c.Files[rg.Intn(fi)]
				for _, pk := range pf.Keys {
					if pk.Key == k && len(pk.Blocks) > 0 {
						b := pk.Blocks[rg.Intn(len(pk.Blocks))]
						var s []int
						for _, p := range b.Pts {
							s = append(s, int((p.T-c.Off)/c.Step))
						}
						blocks = append(blocks, s)
					}
				}
			}
			nb := rg.Range(1, 4)
			if overlapMode && rg.Bool() {
				// blocks drawn independently: may overlap or repeat inside the file
				for b := 0; b < nb; b++ {
					sz := c04BlockSize(rg, c.PPB)
					lo := rg.Intn(c.Slots)
					hi := lo + sz - 1 + rg.Intn(sz+3)
					if hi >= c.Slots {
						hi = c.Slots - 1
					}
					blocks = append(blocks, c04SortedSubset(rg, lo, hi, sz))
				}
			} else {
				// a valid file: sorted distinct timestamps cut into consecutive blocks
				var cp []int
				if len(blocks) > 0 {
					cp = blocks[0]
				}
				var sizes []int
				total := 0
				for b := 0; b < nb; b++ {
					sizes = append(sizes, c04BlockSize(rg, c.PPB))
					total += sizes[b]
				}
				if total > c.Slots {
					total = c.Slots
				}
				lo := rg.Intn(c.Slots - total + 1)
				hi := lo + total - 1 + rg.Intn(total+4)
				if hi >= c.Slots {
					hi = c.Slots - 1
				}
				all := c04SortedSubset(rg, lo, hi, total)
				// with a copied block present, cut on either side of it so the file stays valid
				parts := [][]int{all}
				if cp != nil {
					var left, right []int
					for _, s := range all {
						if s < cp[0] {
							left = append(left, s)
						} else if s > cp[len(cp)-1] {
							right = append(right, s)
						}
					}
					parts = [][]int{left, right}
				}
				si := 0
				for _, part := range parts {
					for len(part) > 0 {
						sz := sizes[si%len(sizes)]
						si++
						if sz > len(part) {
							sz = len(part)
						}
						blocks = append(blocks, part[:sz])
						part = part[sz:]
					}
				}
			}
			sort.SliceStable(blocks, func(i, j int) bool { return blocks[i][0] < blocks[j][0] })
			for _, s := range blocks {
				if len(s) == 0 {
					continue
				}
				var blk c04Block
				var vals []tsm1.Value
				for _, slot := range s {
					*ctr++
					v := tfMk(c.types[k], c.ts(slot), *ctr)
					vals = append(vals, v)
					blk.Pts = append(blk.Pts, tfCanon(v))
				}
				fk.Blocks = append(fk.Blocks, blk)
				fk.vals = append(fk.vals, vals)
			}
			if len(fk.Blocks) > 0 {
				f.Keys = append(f.Keys, fk)
			}
		}
		if len(f.Keys) == 0 {
			// a TSM file holds at least one key
			k := keys[rg.Intn(len(keys))]
			*ctr++
			v := tfMk(c.types[k], c.ts(rg.Intn(c.Slots)), *ctr)
			f.Keys = append(f.Keys, c04FileKey{Key: k, Blocks: []c04Block{{Pts: []tfPt{tfCanon(v)}}}, vals: [][]tsm1.Value{{v}}})
		}
		// tombstones
		if rg.Bool() {
			for n := rg.Range(1, 3); n > 0; n-- {
				var tk []string
				for _, k := range keys {
					if rg.Bool() {
						tk = append(tk, k)
					}
				}
				if len(tk) == 0 {
					tk = []string{keys[rg.Intn(len(keys))]}
				}
				fk := f.Keys[rg.Intn(len(f.Keys))]
				var lo, hi int64
				jit := func() int64 {
					if c.Step == 1 {
						return 0
					}
					return int64(rg.Intn(3) - 1)
				}
				switch rg.Intn(7) {
				case 0: // full key
					lo, hi = math.MinInt64, math.MaxInt64
				case 1: // exactly one block of a key of this file
					b := fk.Blocks[rg.Intn(len(fk.Blocks))]
					lo, hi = b.Pts[0].T, b.Pts[len(b.Pts)-1].T
				case 2: // everything that key holds in this file
					lo, hi = fk.Blocks[0].Pts[0].T, fk.Blocks[0].Pts[0].T
					for _, b := range fk.Blocks {
						for _, p := range b.Pts {
							if p.T < lo {
								lo = p.T
							}
							if p.T > hi {
								hi = p.T
							}
						}
					}
				case 3: // one point
					b := fk.Blocks[rg.Intn(len(fk.Blocks))]
					lo = b.Pts[rg.Intn(len(b.Pts))].T
					hi = lo
				default: // a range cutting blocks
					a := rg.Intn(c.Slots)
					b := a + rg.Intn(c.Slots/3+1)
					if b >= c.Slots {
						b = c.Slots - 1
					}
					lo, hi = c.ts(a)+jit(), c.ts(b)+jit()
					if lo > hi {
						lo, hi = hi, lo
					}
				}
				f.Tombs = append(f.Tombs, tfTomb{Keys: tk, Min: lo, Max: hi})
			}
		}
		c.Files = append(c.Files, f)
	}
	// is there overlap inside a file?
	for _, f := range c.Files {
		for _, k := range f.Keys {
			for i := range k.Blocks {
				for j := i + 1; j < len(k.Blocks); j++ {
					a, b := k.Blocks[i].Pts, k.Blocks[j].Pts
					if a[0].T <= b[len(b)-1].T && b[0].T <= a[len(a)-1].T {
						c.InfileOverlap = true
					}
				}
			}
		}
	}
	return c
}

// c04Model returns, per key, the merged live content: timestamp → set of acceptable values.
// Across files the later file wins. Inside one file a timestamp can only repeat when the
// file holds overlapping blocks of the key (infile_overlap); the statement does not say which
// of them wins, so every live value of the winning file is acceptable.
func c04Model(c *c04Case) map[string]map[int64]map[string]bool {
	m := map[string]map[int64]map[string]bool{}
	for _, f := range c.Files {
		per := map[string]map[int64]map[string]bool{}
		for _, k := range f.Keys {
			for _, b := range k.Blocks {
				for _, p := range b.Pts {
					dead := false
					for _, t := range f.Tombs {
						if t.covers(k.Key, p.T) {
							dead = true
							break
						}
					}
					if dead {
						continue
					}
					if per[k.Key] == nil {
						per[k.Key] = map[int64]map[string]bool{}
					}
					if per[k.Key][p.T] == nil {
						per[k.Key][p.T] = map[string]bool{}
					}
					per[k.Key][p.T][p.V] = true
				}
			}
		}
		for k, tsm := range per {
			if m[k] == nil {
				m[k] = map[int64]map[string]bool{}
			}
			for t, vs := range tsm {
				m[k][t] = vs // later file replaces
			}
		}
	}
	for k := range m {
		if len(m[k]) == 0 {
			delete(m, k)
		}
	}
	return m
}

type c04OutBlock struct {
	Key    string `json:"key"`
	File   int    `json:"file"`
	Min    int64  `json:"index_min"`
	Max    int64  `json:"index_max"`
	Count  int    `json:"count"`
	First  int64  `json:"first_t"`
	Last   int64  `json:"last_t"`
	points []tfPt
}

type c04Witness struct {
	Case      *c04Case      `json:"case,omitempty"`
	Mode      string        `json:"mode"`
	Detail    string        `json:"detail"`
	Key       string        `json:"key,omitempty"`
	Expected  []tfPt        `json:"expected_first,omitempty"`
	Got       []tfPt        `json:"got,omitempty"`
	Outputs   []c04OutBlock `json:"output_blocks,omitempty"`
	Err       string        `json:"err,omitempty"`
	Snapshot  any           `json:"snapshot_writes,omitempty"`
	Minimised any           `json:"minimised,omitempty"`
}

// c04ReadOutputs opens the compactor's output files with TSMReader and returns every block
// (in file order, index order), plus ReadAll per key.
func c04ReadOutputs(files []string) (blocks []c04OutBlock, keyOrder [][]string, readAll map[string][]tfPt, err error) {
	readAll = map[string][]tfPt{}
	for fi, fn := range files {
		rd, e := tfOpenReader(fn)
		if e != nil {
			return nil, nil, nil, fmt.Errorf("open %s: %w", fn, e)
		}
		var order []string
		it := rd.BlockIterator()
		for it.Next() {
			key, minT, maxT, _, _, buf, e := it.Read()
			if e != nil {
				rd.Close()
				return nil, nil, nil, fmt.Errorf("block iterator %s: %w", fn, e)
			}
			vals, e := tsm1.DecodeBlock(buf, nil)
			if e != nil {
				rd.Close()
				return nil, nil, nil, fmt.Errorf("decode block of %q in %s: %w", key, fn, e)
			}
			ob := c04OutBlock{Key: string(key), File: fi, Min: minT, Max: maxT, Count: len(vals), points: tfCanonAll(vals)}
			if len(vals) > 0 {
				ob.First, ob.Last = vals[0].UnixNano(), vals[len(vals)-1].UnixNano()
			}
			blocks = append(blocks, ob)
			if len(order) == 0 || order[len(order)-1] != string(key) {
				order = append(order, string(key))
			}
		}
		if e := it.Err(); e != nil {
			rd.Close()
			return nil, nil, nil, fmt.Errorf("block iterator %s: %w", fn, e)
		}
		for _, k := range order {
			vs, e := rd.ReadAll([]byte(k))
			if e != nil {
				rd.Close()
				return nil, nil, nil, fmt.Errorf("ReadAll %q: %w", k, e)
			}
			readAll[k] = append(readAll[k], tfCanonAll(vs)...)
		}
		keyOrder = append(keyOrder, order)
		rd.Close()
	}
	return
}

type c04Reporter func(class string, feat map[string]string, w c04Witness)

// c04CheckOutputs applies the structural scan and the content comparison.
func c04CheckOutputs(ev func(string, int64), mode string, ppb int, model map[string]map[int64]map[string]bool, files []string, report c04Reporter) {
	blocks, keyOrder, readAll, err := c04ReadOutputs(files)
	if err != nil {
		report("output_unreadable", nil, c04Witness{Detail: "an output file cannot be read back", Err: err.Error()})
		return
	}
	ev("output_files_"+mode, int64(len(files)))
	ev("output_blocks_"+mode, int64(len(blocks)))
	// keys sorted inside each file; non-decreasing across files
	last := ""
	for fi, order := range keyOrder {
		for i, k := range order {
			if i > 0 && k <= order[i-1] {
				report("keys_not_sorted", nil, c04Witness{Detail: fmt.Sprintf("output file %d lists key %q after %q", fi, k, order[i-1]), Outputs: blocks})
				return
			}
			if i == 0 && fi > 0 && k < last {
				report("keys_not_sorted", nil, c04Witness{Detail: fmt.Sprintf("output file %d starts with key %q, before the previous file's last key %q", fi, k, last), Outputs: blocks})
				return
			}
		}
		if len(order) > 0 {
			last = order[len(order)-1]
		}
	}
	// per key: block size, internal order, index entry covers data, blocks ordered and disjoint
	perKey := map[string][]c04OutBlock{}
	var korder []string
	for _, b := range blocks {
		if _, ok := perKey[b.Key]; !ok {
			korder = append(korder, b.Key)
		}
		perKey[b.Key] = append(perKey[b.Key], b)
	}
	for _, k := range korder {
		bs := perKey[k]
		var got []tfPt
		for i, b := range bs {
			ev("blocks_scanned", 1)
			if b.Count > ppb {
				report("block_exceeds_points_per_block", nil, c04Witness{Key: k, Detail: fmt.Sprintf("block %d of %q holds %d points, requested at most %d", i, k, b.Count, ppb), Outputs: bs})
			}
			if b.Count == 0 {
				report("empty_block", nil, c04Witness{Key: k, Detail: fmt.Sprintf("block %d of %q holds no points", i, k), Outputs: bs})
				continue
			}
			for j := 1; j < len(b.points); j++ {
				if b.points[j].T <= b.points[j-1].T {
					report("block_not_strictly_ascending", nil, c04Witness{Key: k, Detail: fmt.Sprintf("block %d of %q: t=%d follows t=%d", i, k, b.points[j].T, b.points[j-1].T), Outputs: bs, Got: tfTrimPts(b.points, 40)})
					break
				}
			}
			if b.First < b.Min || b.Last > b.Max || b.Min > b.Max {
				report("index_entry_does_not_cover_block", nil, c04Witness{Key: k, Detail: fmt.Sprintf("block %d of %q: index says [%d,%d], data spans [%d,%d]", i, k, b.Min, b.Max, b.First, b.Last), Outputs: bs})
			}
			if i > 0 {
				p := bs[i-1]
				if b.Min <= p.Max || (p.Count > 0 && b.First <= p.Last) {
					report("blocks_overlap_or_unordered", nil, c04Witness{Key: k, Detail: fmt.Sprintf("blocks %d and %d of %q: [%d,%d] then [%d,%d]", i-1, i, k, p.Min, p.Max, b.Min, b.Max), Outputs: bs})
				}
			}
			got = append(got, b.points...)
		}
		// content, twice: decoded blocks and ReadAll
		for _, src := range []struct {
			name string
			pts  []tfPt
		}{{"blocks", got}, {"ReadAll", readAll[k]}} {
			ev("keys_compared_"+src.name, 1)
			if class, detail, exp := c04Diff(model[k], src.pts); class != "" {
				report(class, map[string]string{"read_via": src.name}, c04Witness{Key: k, Detail: detail, Expected: tfTrimPts(exp, 40), Got: tfTrimPts(src.pts, 40), Outputs: bs})
				break
			}
			ev("points_compared", int64(len(src.pts)))
		}
	}
	for k, want := range model {
		if _, ok := perKey[k]; !ok && len(want) > 0 {
			report("missing_key", nil, c04Witness{Key: k, Detail: fmt.Sprintf("key %q has %d live points in the inputs, none in the outputs", k, len(want)), Outputs: blocks})
		}
	}
}

// c04Diff compares one key's output points (in output order) with the model.
func c04Diff(want map[int64]map[string]bool, got []tfPt) (class, detail string, exp []tfPt) {
	ts := make([]int64, 0, len(want))
	for t := range want {
		ts = append(ts, t)
	}
	sort.Slice(ts, func(i, j int) bool { return ts[i] < ts[j] })
	for _, t := range ts {
		var vs []string
		for v := range want[t] {
			vs = append(vs, v)
		}
		sort.Strings(vs)
		exp = append(exp, tfPt{t, strings.Join(vs, "|")})
	}
	seen := map[int64]bool{}
	for i, p := range got {
		if seen[p.T] {
			return "duplicate_point", fmt.Sprintf("t=%d appears twice in the output", p.T), exp
		}
		seen[p.T] = true
		if i > 0 && p.T < got[i-1].T {
			return "points_out_of_order", fmt.Sprintf("t=%d after t=%d", p.T, got[i-1].T), exp
		}
		vs, ok := want[p.T]
		if !ok {
			return "dead_point_in_output", fmt.Sprintf("t=%d (%s) is in the output but is not live in the inputs (tombstoned or never written)", p.T, p.V), exp
		}
		if !vs[p.V] {
			return "stale_value", fmt.Sprintf("t=%d has %s in the output; the latest input file holding it has %v", p.T, p.V, exp[sort.Search(len(exp), func(j int) bool { return exp[j].T >= p.T })].V), exp
		}
	}
	for _, t := range ts {
		if !seen[t] {
			return "lost_point", fmt.Sprintf("live point t=%d is missing from the output", t), exp
		}
	}
	return "", "", exp
}

// ---- cache snapshot ------------------------------------------------------------------------

type c04SnapWrite struct {
	Key string `json:"key"`
	Pts []tfPt `json:"pts"`
}

func c04Snapshot(r *vkit.Run, rg *vkit.Rand, caseNo int, base string, ctr *uint64, report func(class string, feat map[string]string, w c04Witness)) {
	dir, err := os.MkdirTemp(base, "s")
	if err != nil {
		r.T.Fatal(err)
	}
	defer os.RemoveAll(dir)
	nk := rg.Range(1, 5)
	keys := append([]string(nil), c04KeyPool...)
	for i := len(keys) - 1; i > 0; i-- {
		j := rg.Intn(i + 1)
		keys[i], keys[j] = keys[j], keys[i]
	}
	keys = keys[:nk]
	big := rg.Chance(1, 4)
	cache := tsm1.NewCache(0, tsdb.EngineTags{})
	model := map[string]map[int64]map[string]bool{}
	var writes []c04SnapWrite
	off := []int64{0, -500, 1600000000000000000, math.MinInt64 + 2}[rg.Intn(4)]
	step := []int64{1, 1000}[rg.Intn(2)]
	total := 0
	for ki, k := range keys {
		typ := rg.Intn(5)
		slots := 40
		nw := rg.Range(1, 4)
		if big && ki == 0 {
			slots = []int{1000, 1001, 1999, 2000, 2001, 2500}[rg.Intn(6)] + 20
		}
		for w := 0; w < nw; w++ {
			n := rg.Range(1, 12)
			if big && ki == 0 && w == 0 {
				n = slots - 20
			}
			var vals []tsm1.Value
			var pts []tfPt
			for i := 0; i < n; i++ {
				var slot int
				if big && ki == 0 && w == 0 {
					slot = i + rg.Intn(2)*0 // dense run; later writes overwrite parts of it
				} else {
					slot = rg.Intn(slots)
				}
				*ctr++
				v := tfMk(typ, off+step*int64(slot), *ctr)
				vals = append(vals, v) // unsorted, duplicates inside the batch: last one wins
				pts = append(pts, tfCanon(v))
			}
			if err := cache.WriteMulti(map[string][]tsm1.Value{k: vals}); err != nil {
				report("setup_failed", map[string]string{"step": "cache_write"}, c04Witness{Err: err.Error()})
				return
			}
			if model[k] == nil {
				model[k] = map[int64]map[string]bool{}
			}
			for _, p := range pts {
				model[k][p.T] = map[string]bool{p.V: true}
			}
			if len(pts) <= 40 {
				writes = append(writes, c04SnapWrite{k, pts})
			} else {
				writes = append(writes, c04SnapWrite{k, append(append([]tfPt{}, pts[:5]...), tfPt{0, fmt.Sprintf("… %d points", len(pts))})})
			}
			total += n
		}
	}
	var canon strings.Builder
	for _, w := range writes {
		fmt.Fprintf(&canon, "%s%v", w.Key, w.Pts)
	}
	r.Case("snapshot|"+canon.String(), total >= 2)
	fs, err := tfOpenFileStore(dir)
	if err != nil {
		report("setup_failed", map[string]string{"step": "open_filestore"}, c04Witness{Err: err.Error()})
		return
	}
	defer fs.Close()
	comp := tsm1.NewCompactor()
	comp.Dir = dir
	comp.FileStore = fs
	comp.Open()
	defer comp.Close()
	snap, err := cache.Snapshot()
	if err != nil {
		report("setup_failed", map[string]string{"step": "cache_snapshot"}, c04Witness{Err: err.Error()})
		return
	}
	// Engine.WriteSnapshot's protocol: Cache.Snapshot, Deduplicate, Compactor.WriteSnapshot
	snap.Deduplicate()
	files, err := comp.WriteSnapshot(snap, zap.NewNop())
	rep := func(class string, feat map[string]string, w c04Witness) {
		w.Snapshot = writes
		report(class, feat, w)
	}
	if err != nil {
		rep("compaction_error", nil, c04Witness{Detail: "WriteSnapshot returned an error", Err: err.Error()})
		return
	}
	r.Event("snapshot_runs", 1)
	if big {
		r.Event("snapshot_runs_with_key_over_1000_points", 1)
	}
	c04CheckOutputs(r.Event, "snapshot", tsdb.DefaultMaxPointsPerBlock, model, files, rep)
	if r.WantSample() && caseNo%50 == 3 {
		r.Sample(map[string]any{"case": caseNo, "mode": "snapshot", "writes": writes, "output_files": len(files)})
	}
}

type c04Mis struct {
	class string
	feat  map[string]string
	w     c04Witness
}

// c04KeyLabels describes the failing key's input blocks for the violation's features: how many
// blocks the compactor has to order, and whether "overlaps in time" is not transitive on them
// (a overlaps b, b overlaps c, a entirely before c). Labels only; they decide nothing.
func c04KeyLabels(c *c04Case, key string) map[string]string {
	type iv struct{ lo, hi int64 }
	var ivs []iv
	for _, f := range c.Files {
		for _, k := range f.Keys {
			if k.Key == key {
				for _, b := range k.Blocks {
					ivs = append(ivs, iv{b.Pts[0].T, b.Pts[len(b.Pts)-1].T})
				}
			}
		}
	}
	ov := func(a, b iv) bool { return a.lo <= b.hi && b.lo <= a.hi }
	nontrans := false
	for _, a := range ivs {
		for _, b := range ivs {
			if !ov(a, b) {
				continue
			}
			for _, cc := range ivs {
				if ov(b, cc) && !ov(a, cc) {
					nontrans = true
				}
			}
		}
	}
	nb := "le20"
	if len(ivs) > 20 {
		nb = "gt20"
	}
	return map[string]string{"key_blocks": nb, "overlap_not_transitive": fmt.Sprint(nontrans)}
}

// c04Execute writes the case's input files, opens a real FileStore and Compactor over them,
// runs the given compaction modes and returns every disagreement with the model.
func c04Execute(ev func(string, int64), base string, c *c04Case, modes []string) (out []c04Mis, setupErr error) {
	if ev == nil {
		ev = func(string, int64) {}
	}
	model := c04Model(c)
	dir, err := os.MkdirTemp(base, "c")
	if err != nil {
		return nil, err
	}
	defer os.RemoveAll(dir)
	var names []string
	for fi := range c.Files {
		f := &c.Files[fi]
		path := tfFileName(dir, fi+1, 1+fi%2)
		f.Name = path[len(dir)+1:]
		var kbs []tfKeyBlocks
		for _, k := range f.Keys {
			kbs = append(kbs, tfKeyBlocks{Key: k.Key, Typ: c.types[k.Key], Blocks: k.vals})
		}
		if err := tfWriteTSM(path, kbs); err != nil {
			return nil, err
		}
		if err := tfWriteTombstones(path, f.Tombs, fi%2 == 0); err != nil {
			return nil, err
		}
		if len(f.Tombs) > 0 {
			ev("input_files_with_tombstones", 1)
		}
		names = append(names, path)
	}
	fs, err := tfOpenFileStore(dir)
	if err != nil {
		return nil, err
	}
	defer fs.Close()
	comp := tsm1.NewCompactor()
	comp.Dir = dir
	comp.FileStore = fs
	comp.Open()
	defer comp.Close()
	for _, mode := range modes {
		var files []string
		var err error
		if mode == "full" {
			files, err = comp.CompactFull(names, zap.NewNop(), c.PPB)
		} else {
			files, err = comp.CompactFast(names, zap.NewNop(), c.PPB)
		}
		report := func(class string, extra map[string]string, w c04Witness) {
			w.Case, w.Mode = c, mode
			feat := map[string]string{"mode": mode, "ppb": fmt.Sprint(c.PPB)}
			for k, v := range extra {
				feat[k] = v
			}
			if w.Key != "" {
				for k, v := range c04KeyLabels(c, w.Key) {
					feat[k] = v
				}
			}
			out = append(out, c04Mis{class, feat, w})
		}
		ev("compactions_"+mode, 1)
		if err != nil {
			report("compaction_error", nil, c04Witness{Detail: "the compactor returned an error", Err: err.Error()})
		} else {
			c04CheckOutputs(ev, mode, c.PPB, model, files, report)
		}
		for _, f := range files {
			os.Remove(f)
		}
	}
	return out, nil
}

func c04Clone(c *c04Case) *c04Case {
	n := &c04Case{PPB: c.PPB, Types: c.Types, types: c.types, Off: c.Off, Step: c.Step, Slots: c.Slots}
	for _, f := range c.Files {
		nf := c04File{Tombs: append([]tfTomb(nil), f.Tombs...)}
		for _, k := range f.Keys {
			nk := c04FileKey{Key: k.Key}
			for bi, b := range k.Blocks {
				nk.Blocks = append(nk.Blocks, c04Block{Pts: append([]tfPt(nil), b.Pts...)})
				nk.vals = append(nk.vals, append([]tsm1.Value(nil), k.vals[bi]...))
			}
			nf.Keys = append(nf.Keys, nk)
		}
		n.Files = append(n.Files, nf)
	}
	return n
}

// c04Minimise: greedy deletion of keys, files, tombstones, blocks and points that keeps a
// violation of the same class (same mode) alive (BUILDING rule 7).
func c04Minimise(base string, c *c04Case, mode, class string) (*c04Case, *c04Mis) {
	still := func(cand *c04Case) *c04Mis {
		for _, f := range cand.Files {
			if len(f.Keys) == 0 {
				return nil
			}
		}
		if len(cand.Files) < 1 {
			return nil
		}
		ms, err := c04Execute(nil, base, cand, []string{mode})
		if err != nil {
			return nil
		}
		for i := range ms {
			if ms[i].class == class {
				return &ms[i]
			}
		}
		return nil
	}
	cur := c04Clone(c)
	best := still(cur)
	if best == nil {
		return nil, nil
	}
	budget := 1500
	try := func(cand *c04Case) bool {
		if budget <= 0 {
			return false
		}
		budget--
		if m := still(cand); m != nil {
			cur, best = cand, m
			return true
		}
		return false
	}
	for changed := true; changed && budget > 0; {
		changed = false
		// drop every key but the failing one
		for _, k := range cur.Files[0].Keys {
			_ = k
		}
		if best.w.Key != "" {
			cand := c04Clone(cur)
			removed := false
			for fi := range cand.Files {
				var ks []c04FileKey
				for _, k := range cand.Files[fi].Keys {
					if k.Key == best.w.Key {
						ks = append(ks, k)
					} else {
						removed = true
					}
				}
				cand.Files[fi].Keys = ks
			}
			var fl []c04File
			for _, f := range cand.Files {
				if len(f.Keys) > 0 {
					fl = append(fl, f)
				}
			}
			cand.Files = fl
			if removed && try(cand) {
				changed = true
			}
		}
		for i := 0; i < len(cur.Files) && len(cur.Files) > 1; i++ { // drop a file
			cand := c04Clone(cur)
			cand.Files = append(cand.Files[:i], cand.Files[i+1:]...)
			if try(cand) {
				changed = true
				i--
			}
		}
		for i := 0; i < len(cur.Files); i++ { // drop a tombstone
			for j := 0; j < len(cur.Files[i].Tombs); j++ {
				cand := c04Clone(cur)
				cand.Files[i].Tombs = append(cand.Files[i].Tombs[:j], cand.Files[i].Tombs[j+1:]...)
				if try(cand) {
					changed = true
					j--
				}
			}
		}
		for i := 0; i < len(cur.Files); i++ { // drop a block
			for ki := 0; ki < len(cur.Files[i].Keys); ki++ {
				for j := 0; j < len(cur.Files[i].Keys[ki].Blocks) && len(cur.Files[i].Keys[ki].Blocks) > 1; j++ {
					cand := c04Clone(cur)
					k := &cand.Files[i].Keys[ki]
					k.Blocks = append(k.Blocks[:j], k.Blocks[j+1:]...)
					k.vals = append(k.vals[:j], k.vals[j+1:]...)
					if try(cand) {
						changed = true
						j--
					}
				}
			}
		}
		for i := 0; i < len(cur.Files); i++ { // drop a point
			for ki := 0; ki < len(cur.Files[i].Keys); ki++ {
				for j := 0; j < len(cur.Files[i].Keys[ki].Blocks); j++ {
					for p := 0; p < len(cur.Files[i].Keys[ki].Blocks[j].Pts) && len(cur.Files[i].Keys[ki].Blocks[j].Pts) > 1; p++ {
						if len(cur.Files[i].Keys[ki].Blocks[j].Pts) > 12 {
							break // large blocks are not minimised point by point
						}
						cand := c04Clone(cur)
						k := &cand.Files[i].Keys[ki]
						k.Blocks[j].Pts = append(k.Blocks[j].Pts[:p], k.Blocks[j].Pts[p+1:]...)
						k.vals[j] = append(k.vals[j][:p], k.vals[j][p+1:]...)
						if try(cand) {
							changed = true
							p--
						}
					}
				}
			}
		}
	}
	return cur, best
}

func c04Nontrivial(c *c04Case) bool {
	for _, f := range c.Files {
		for _, k := range f.Keys {
			for _, b := range k.Blocks {
				for _, p := range b.Pts {
					for _, tb := range f.Tombs {
						if tb.covers(k.Key, p.T) {
							return true
						}
					}
				}
			}
		}
	}
	for a := 0; a < len(c.Files); a++ {
		for b := a + 1; b < len(c.Files); b++ {
			for _, ka := range c.Files[a].Keys {
				for _, kb := range c.Files[b].Keys {
					if ka.Key != kb.Key {
						continue
					}
					la, lb := ka.Blocks[len(ka.Blocks)-1].Pts, kb.Blocks[len(kb.Blocks)-1].Pts
					amin, amax := ka.Blocks[0].Pts[0].T, la[len(la)-1].T
					bmin, bmax := kb.Blocks[0].Pts[0].T, lb[len(lb)-1].T
					if amin <= bmax && bmin <= amax {
						return true
					}
				}
			}
		}
	}
	return false
}

func TestC04(t *testing.T) {
	r := vkit.Start(t, "C04", "exploration")
	defer r.Finish()
	r.Rule("case = 2–6 real TSM files over 1–5 keys (each key one of five value types), per key and file 1–4 (or more, around a copied block) consecutive blocks of 1..ppb points on a small timestamp grid, a block often copied (same timestamps, new values) from an earlier file, half of the files with 1–3 tombstone entries (full key, exactly a block, all of a key, one point, a range cutting blocks), ppb ∈ {1,2,3,7,1000}; each case is compacted with CompactFull and CompactFast; every third case additionally writes a generated Cache (1–4 unsorted batches per key with duplicates, a quarter with one key of 1000–2500 points) with WriteSnapshot; non-trivial = at least two input files hold the same key with overlapping time ranges, or a tombstone covers a point; distinct = hash of (ppb, grid, files, blocks, tombstones)")
	r.Assume("a tombstone hides points of the TSM file it is stored with only",
		"input files are passed to the compactor in generation order; later = higher generation",
		"blocks of one key do not overlap inside one input file (a file with such blocks is not a valid TSM file: the index keeps a key's entries ordered by start time and derives the key's time range from the first and last entry); overlap and duplication are across files")
	n := r.N(400, 10000)
	base, err := tfScratch("c04-")
	if err != nil {
		t.Fatal(err)
	}
	defer os.RemoveAll(base)
	var ctr uint64
	minimised := map[string]int{}
	for i := 0; i < n; i++ {
		rg := r.Rand(i)
		c := c04Gen(rg, i, &ctr)
		nt := c04Nontrivial(c)
		r.Case(c.canonical(), nt)
		maxBlocks := 0
		perKey := map[string]int{}
		for _, f := range c.Files {
			for _, k := range f.Keys {
				perKey[k.Key] += len(k.Blocks)
				if perKey[k.Key] > maxBlocks {
					maxBlocks = perKey[k.Key]
				}
			}
		}
		if maxBlocks > 20 {
			r.Event("cases_with_a_key_of_more_than_20_input_blocks", 1)
		}
		ms, err := c04Execute(r.Event, base, c, []string{"full", "fast"})
		if err != nil {
			r.Violation("setup_failed", map[string]string{"step": "write_inputs"}, map[string]any{"case": c, "err": err.Error()})
			continue
		}
		if nt && r.WantSample() && i%11 == 0 {
			r.Sample(map[string]any{"case": i, "mode": "full+fast", "inputs": c})
		}
		seen := map[string]bool{}
		for _, m := range ms {
			r.Event("mismatch_"+m.class+"_"+m.feat["mode"], 1)
			k := m.class + "/" + m.feat["mode"]
			if seen[k] {
				continue // one witness per (case, class, mode)
			}
			seen[k] = true
			if minimised[k] < 2 {
				minimised[k]++
				if mc, mm := c04Minimise(base, c, m.feat["mode"], m.class); mc != nil {
					m.w.Minimised = map[string]any{"case": mc, "detail": mm.w.Detail, "key": mm.w.Key, "expected": mm.w.Expected, "got": mm.w.Got, "output_blocks": mm.w.Outputs}
				}
			}
			r.Violation(m.class, m.feat, m.w)
		}

		if i%3 == 0 {
			c04Snapshot(r, r.SubRand("snapshot", i), i, base, &ctr, func(class string, extra map[string]string, w c04Witness) {
				w.Mode = "snapshot"
				m := map[string]string{"mode": "snapshot"}
				for k, v := range extra {
					m[k] = v
				}
				r.Event("mismatch_"+class+"_snapshot", 1)
				r.Violation(class, m, w)
			})
		}
	}
}
