package g_tsmfile

// Shared helpers of the g_tsmfile group (C04, C06, C08): unique-valued points of the five TSM
// value types, a writer for real TSM files, a writer for real tombstone files and a
// canonical (comparable, JSON-able) form of values read back.

import (
	"context"
	"fmt"
	"math"
	"os"
	"path/filepath"
	"sort"

	"github.com/influxdata/influxdb/v2/tsdb"
	"github.com/influxdata/influxdb/v2/tsdb/engine/tsm1"
)

const (
	tfFloat = iota
	tfInteger
	tfUnsigned
	tfBoolean
	tfString
)

var tfTypeNames = []string{"float", "integer", "unsigned", "boolean", "string"}

// block type byte stored in the TSM index, by tf type
var tfBlockTypes = []byte{tsm1.BlockFloat64, tsm1.BlockInteger, tsm1.BlockUnsigned, tsm1.BlockBoolean, tsm1.BlockString}

// tfPt is one logical point: timestamp and canonical value.
type tfPt struct {
	T int64  `json:"t"`
	V string `json:"v"`
}

// tfMk builds the value of write #ctr: every write carries its own id so that a read names
// the write it observed (DESIGN §4 M1). Booleans cannot carry an id; they carry a hash bit.
func tfMk(typ int, ts int64, ctr uint64) tsm1.Value {
	switch typ {
	case tfFloat:
		return tsm1.NewFloatValue(ts, float64(ctr))
	case tfInteger:
		return tsm1.NewIntegerValue(ts, int64(ctr))
	case tfUnsigned:
		return tsm1.NewUnsignedValue(ts, ctr)
	case tfBoolean:
		return tsm1.NewBooleanValue(ts, (ctr*0x9E3779B97F4A7C15)>>63 == 1)
	default:
		return tsm1.NewStringValue(ts, fmt.Sprintf("w%d", ctr))
	}
}

func tfCanonRaw(v interface{}) string {
	switch x := v.(type) {
	case float64:
		return fmt.Sprintf("f%016x", math.Float64bits(x))
	case int64:
		return fmt.Sprintf("i%d", x)
	case uint64:
		return fmt.Sprintf("u%d", x)
	case bool:
		return fmt.Sprintf("b%t", x)
	case string:
		return fmt.Sprintf("s%q", x)
	default:
		return fmt.Sprintf("?%T:%v", v, v)
	}
}

func tfCanon(v tsm1.Value) tfPt { return tfPt{T: v.UnixNano(), V: tfCanonRaw(v.Value())} }

func tfCanonAll(vs []tsm1.Value) []tfPt {
	out := make([]tfPt, len(vs))
	for i, v := range vs {
		out[i] = tfCanon(v)
	}
	return out
}

// tfKeyBlocks is what one TSM file holds for one key: blocks in the order they are written.
type tfKeyBlocks struct {
	Key    string
	Typ    int
	Blocks [][]tsm1.Value
}

// tfFileName is the engine's naming scheme (generation-sequence.tsm).
func tfFileName(dir string, gen, seq int) string {
	return filepath.Join(dir, tsm1.DefaultFormatFileName(gen, seq)+"."+tsm1.TSMFileExtension)
}

// tfWriteTSM writes a real TSM file with the real writer. keys must be sorted by Key.
func tfWriteTSM(path string, keys []tfKeyBlocks) error {
	f, err := os.OpenFile(path, os.O_CREATE|os.O_RDWR|os.O_EXCL, 0o666)
	if err != nil {
		return err
	}
	w, err := tsm1.NewTSMWriter(f)
	if err != nil {
		f.Close()
		return err
	}
	for _, kb := range keys {
		for _, blk := range kb.Blocks {
			if err := w.Write([]byte(kb.Key), blk); err != nil {
				w.Close()
				return fmt.Errorf("write %q: %w", kb.Key, err)
			}
		}
	}
	if err := w.WriteIndex(); err != nil {
		w.Close()
		return fmt.Errorf("write index: %w", err)
	}
	return w.Close()
}

// tfTomb is one tombstone entry set: a closed time range for a list of keys.
// Min=MinInt64, Max=MaxInt64 is the full-key delete.
type tfTomb struct {
	Keys []string `json:"keys"`
	Min  int64    `json:"min"`
	Max  int64    `json:"max"`
}

func (t tfTomb) covers(key string, ts int64) bool {
	if ts < t.Min || ts > t.Max {
		return false
	}
	for _, k := range t.Keys {
		if k == key {
			return true
		}
	}
	return false
}

func tfKeysBytes(keys []string) [][]byte {
	ks := append([]string(nil), keys...)
	sort.Strings(ks)
	out := make([][]byte, len(ks))
	for i, k := range ks {
		out[i] = []byte(k)
	}
	return out
}

// tfWriteTombstones records tombstones for the TSM file at path with the real Tombstoner
// (one Flush per entry when perEntryFlush, so that the V4 append path is exercised).
func tfWriteTombstones(path string, tombs []tfTomb, perEntryFlush bool) error {
	if len(tombs) == 0 {
		return nil
	}
	ts := tsm1.NewTombstoner(path, nil)
	for _, t := range tombs {
		if err := ts.AddRange(tfKeysBytes(t.Keys), t.Min, t.Max); err != nil {
			return err
		}
		if perEntryFlush {
			if err := ts.Flush(); err != nil {
				return err
			}
		}
	}
	return ts.Flush()
}

func tfOpenFileStore(dir string) (*tsm1.FileStore, error) {
	fs := tsm1.NewFileStore(dir, tsdb.EngineTags{})
	if err := fs.Open(context.Background()); err != nil {
		return nil, err
	}
	return fs, nil
}

func tfOpenReader(path string) (*tsm1.TSMReader, error) {
	f, err := os.Open(path)
	if err != nil {
		return nil, err
	}
	r, err := tsm1.NewTSMReader(f)
	if err != nil {
		f.Close()
		return nil, err
	}
	return r, nil
}

func tfTimeName(t int64) string {
	switch t {
	case math.MinInt64:
		return "MinInt64"
	case math.MaxInt64:
		return "MaxInt64"
	}
	return fmt.Sprint(t)
}

func tfTrimPts(p []tfPt, n int) []tfPt {
	if len(p) > n {
		return p[:n]
	}
	return p
}

// tfScratch returns a per-check scratch directory. /dev/shm is used when present: the
// checks are about logical content, not about what the block device does with fsync.
func tfScratch(prefix string) (string, error) {
	base := os.Getenv("VERIF_SCRATCH")
	if base == "" {
		if st, err := os.Stat("/dev/shm"); err == nil && st.IsDir() {
			base = "/dev/shm"
		}
	}
	return os.MkdirTemp(base, prefix)
}
