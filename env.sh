# sourced by setup.sh and ./check — environment every /verif command needs (DESIGN §2)
export VERIF_ROOT="${VERIF_ROOT:-$(cd "$(dirname "${BASH_SOURCE[0]}")" && pwd)}"
_tc=/root/go/pkg/mod/golang.org/toolchain@v0.0.1-go1.26.3.linux-amd64/bin
[ -x "$_tc/go" ] && export PATH="$_tc:$PATH"
export GOTOOLCHAIN=local GOFLAGS=-mod=mod GOPROXY=off GOSUMDB=off
export PKG_CONFIG_PATH="$VERIF_ROOT/libflux-stub/build"
export CGO_ENABLED=1
# -L goes through CGO_LDFLAGS (part of the go build cache key; pkg-config output is not)
export CGO_LDFLAGS="-L$VERIF_ROOT/libflux-stub/build"
