#!/usr/bin/env python3
"""Generate MANIFEST.json from checks.json (+ properties.jsonl for the not_applicable list)."""
import json, os, subprocess
ROOT = os.path.dirname(os.path.abspath(__file__))
cfg = json.load(open(os.path.join(ROOT, "checks.json")))
cfg["checks"] = [json.load(open(os.path.join(ROOT, "checks.d", f))) for f in sorted(os.listdir(os.path.join(ROOT, "checks.d"))) if f.endswith(".json")]
props = [json.loads(l)["id"] for l in open(os.path.join(ROOT, "properties.jsonl")) if l.strip()]
claimed = {c["id"] for c in cfg["checks"]}
base = json.load(open("/root/.vp/BASELINE.json"))["cmd"] if os.path.exists("/root/.vp/BASELINE.json") else ""
try:
    commits = subprocess.run(["git", "-C", "/repo", "log", "--format=%H %s", "41328bea8b..HEAD"], capture_output=True, text=True).stdout.splitlines()
    hook_commits = [l.split()[0] for l in commits if "verif hook" in l]
except Exception:
    hook_commits = []
m = {
    "version": 1,
    "setup_cmd": "./setup.sh",
    "hooks": {
        "guard": "verif",
        "enable": "go test -tags verif (harness module /verif/harness with replace github.com/influxdata/influxdb/v2 => /repo); hook call sites are pkg/verifhook.Point(...), an empty inlinable function without the tag; verif_*.go export files carry //go:build verif",
        "baseline_off_cmd": base,
        "source_commits": hook_commits,
        "add_only": True,
    },
    "engines": cfg.get("engines", []),
    "checks": [],
    "notes": cfg.get("notes", ""),
    "not_applicable": [],
}
for c in sorted(cfg["checks"], key=lambda c: c["id"]):
    m["checks"].append({
        "property_id": c["id"],
        "quick_cmd": "./check %s --tier quick" % c["id"],
        "thorough_cmd": "./check %s --tier thorough" % c["id"],
        "evidence_file": "evidence/%s.json" % c["id"],
        "replay_cmd_template": "./check %s --replay {path}" % c["id"],
        "engine": c["group"],
        "level_claimed": {"category": c["level"], "text": c["text"], "design_ref": c.get("design_ref", "DESIGN.md §5 " + c["id"])},
        "level_note": c["note"],
        "technique": c["technique"],
    })
na = cfg.get("not_applicable", {})
for p in props:
    if p not in claimed:
        m["not_applicable"].append({"property_id": p, "reason": na.get(p, "not claimed: its runtime monitor (DESIGN.md §5 %s) is not built yet, so no check is registered" % p)})
json.dump(m, open(os.path.join(ROOT, "MANIFEST.json"), "w"), indent=1)
print("MANIFEST.json: %d checks, %d not_applicable" % (len(m["checks"]), len(m["not_applicable"])))
