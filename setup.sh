#!/bin/bash
# setup_cmd: build the stub libflux, generate the harness go.mod/go.sum, warm build caches.
# Offline; uses only files on disk.
set -euo pipefail
cd "$(dirname "$0")"
. ./env.sh
FLUXH=/root/go/pkg/mod/github.com/influxdata/flux@v0.200.0/libflux/include/influxdata/flux.h
B=libflux-stub/build
mkdir -p $B/include/influxdata
cp -f "$FLUXH" $B/include/influxdata/flux.h
gcc -O1 -fPIC -I$B/include -c libflux-stub/stub.c -o $B/stub.o
rm -f $B/libflux.a && ar rcs $B/libflux.a $B/stub.o
sed "s|@PREFIX@|$VERIF_ROOT/$B|" libflux-stub/flux.pc.in > $B/flux.pc

# harness module: same require/replace set as /repo (so MVS resolves identically), + porcupine
{
  echo "module verifharness"
  echo
  echo "go 1.26.3"
  echo
  echo "require github.com/influxdata/influxdb/v2 v2.0.0-00010101000000-000000000000"
  echo "require github.com/anishathalye/porcupine v1.3.0"
  echo
  echo "replace github.com/influxdata/influxdb/v2 => /repo"
  grep '^replace ' /repo/go.mod || true
} > harness/go.mod
cp -f /repo/go.sum harness/go.sum
( cd harness && go mod download github.com/anishathalye/porcupine 2>/dev/null || true )
# warm caches: compile every group (no tests run)
if [ "${VERIF_SETUP_WARM:-1}" = 1 ]; then
  ( cd harness && go test -tags verif -count=1 -run '^$' ./... >/dev/null 2>&1 || go test -tags verif -count=1 -run '^$' ./... )
  ( cd harness && go test -tags verif -run 'TestSelf' -count=1 ./vkit/... )
  # warm the race-build cache of the groups that have race checks
  RACE_GROUPS=$(python3 - <<'PY'
import json,glob
g=sorted({json.load(open(f))["group"] for f in glob.glob("checks.d/*.json") if json.load(open(f)).get("build")=="race"})
print(" ".join("./"+x for x in g))
PY
)
  if [ -n "$RACE_GROUPS" ]; then
    ( cd harness && go test -race -tags verif -count=1 -run '^$' $RACE_GROUPS >/dev/null 2>&1 || true )
  fi
fi
echo "setup ok"
